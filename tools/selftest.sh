#!/bin/bash
# Validation of the machinery itself (not a property check):
#  1. instrumentation fidelity: the repository's own tests pass on the instrumented copy;
#  2. determinism: for every harness, N runs per process in 33 processes at GOMAXPROCS 1/4/16
#     with full tracing; all run logs (schedule hash, steps, simulated time, trace hash,
#     violation class) must be identical.
N=${1:-40}
/verif/bin/check --fidelity | tail -1
for id in $(/verif/bin/check --list); do /verif/bin/check $id --selftest $N | tail -1; done
