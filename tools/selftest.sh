#!/bin/bash
# Validation of the machinery itself (not a property check):
#  1. instrumentation fidelity: the repository's own tests pass on the instrumented copy;
#  2. determinism: for every harness, N runs per process in 33 processes at GOMAXPROCS 1/4/16
#     with full tracing; all run logs (schedule hash, steps, simulated time, trace hash,
#     violation class) must be identical.
#  3. instrumenter rules for constructs the pinned tree does not use (sync.Cond, embedded
#     mutexes, RWMutex.TryLock, context.AfterFunc, method values): Z00 passes, and reports the
#     planted defect with VERIF_ZZ_BUGGY=1.
N=${1:-40}
/verif/bin/check --fidelity | tail -1
for id in $(/verif/bin/check --list) Z00; do /verif/bin/check $id --selftest $N | tail -1; done
/verif/bin/check Z00 --budget 10 --no-evidence | grep -c VIOLATION | sed 's/^/Z00 clean: violations=/'
VERIF_ZZ_BUGGY=1 /verif/bin/check Z00 --budget 10 --no-evidence | grep -m1 "class=" | sed 's/^/Z00 planted defect: /'

