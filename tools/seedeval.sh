#!/bin/bash
# usage: seedeval.sh <PROP> <k> [check ids...]   evaluates /tmp/wt-<PROP>/seeded/<k>:
#  1. confirms in a scratch worktree that the demonstration fails with the change and passes without it,
#     and that the touched packages' existing tests pass with the change;
#  2. applies the change to /repo, runs the given checks (default: <PROP>), and reverts /repo;
#  3. stores the change under /verif/seeded/<PROP>-<k>/.
export GOFLAGS=-mod=mod GOPROXY=off GOSUMDB=off GOTOOLCHAIN=local
P=$1; K=$2; shift 2
CHECKS=${@:-$P}
SRC=${SRCROOT:-/tmp/wt}-$P/seeded/$K   # SRCROOT=/tmp/w2 for the second wave
DK=${DSTK:-$K}                          # letter under /verif/seeded (second wave: c, d)
[ -f $SRC/patch.diff ] || { echo "no $SRC/patch.diff"; exit 2; }
[ -z "$(git -C /repo status --porcelain)" ] || { echo "/repo dirty"; exit 2; }
W=/tmp/wt-eval-$$
git -C /repo worktree add -q $W HEAD || exit 2
trap "git -C /repo worktree remove --force $W >/dev/null 2>&1" EXIT
DEMODIR=$(python3 -c "import json;print(json.load(open('$SRC/meta.json')).get('demo_dir','').strip('/'))")
DEMOCMD=$(python3 -c "import json;print(json.load(open('$SRC/meta.json')).get('demo_cmd',''))")
DEMOFILES=$(ls $SRC | grep -v "patch.diff\|meta.json")
echo "== $P-$K demo_dir=$DEMODIR demo files: $DEMOFILES"
for f in $DEMOFILES; do cp $SRC/$f $W/$DEMODIR/; done
# run the demo without the change
CMD=$(python3 -c "
import json,re
c=json.load(open('$SRC/meta.json')).get('demo_cmd','')
c=re.sub(r'\\s+\\(.*$','',c,flags=re.S)
m=re.findall(r'go (?:test|run)[^&;|]*', c)
print(m[-1].strip() if m else c)")
( cd $W && eval "$CMD" ) > /tmp/seed-clean.log 2>&1; RC_CLEAN=$?
( cd $W && git apply $SRC/patch.diff ) || { echo "patch does not apply"; exit 2; }
( cd $W && eval "$CMD" ) > /tmp/seed-patched.log 2>&1; RC_PATCHED=$?
echo "demo without change: rc=$RC_CLEAN ; with change: rc=$RC_PATCHED"
for f in $DEMOFILES; do rm -f $W/$DEMODIR/$f; done
PKGS=$(cd $W && git diff --name-only | xargs -n1 dirname | sort -u | sed 's#^#./#' | tr '\n' ' ')
( cd $W && go build ./... && go test -vet=off -count=1 -skip 'TestTokenBucketFilter' $PKGS ) > /tmp/seed-tests.log 2>&1; RC_TESTS=$?
echo "existing tests of $PKGS with change: rc=$RC_TESTS"
if [ $RC_CLEAN -ne 0 ] || [ $RC_PATCHED -eq 0 ] || [ $RC_TESTS -ne 0 ]; then echo "NOT CONFIRMED (see /tmp/seed-*.log)"; tail -5 /tmp/seed-tests.log; exit 3; fi
# run the checks against the change
git -C /repo apply $SRC/patch.diff || exit 2
RESULT=""
for c in $CHECKS; do
  OUT=$(/verif/bin/check $c --no-evidence --budget ${BUDGET:-25} 2>&1); rc=$?
  V=$(echo "$OUT" | grep -m1 "^VIOLATION")
  CL=$(echo "$OUT" | grep -m1 "class=" | sed 's/^ *//' | cut -c1-160)
  echo "check $c: rc=$rc $V $CL"
  RESULT="$RESULT $c:rc=$rc"
done
git -C /repo checkout -- .
D=/verif/seeded/${DSTP:-$P}-$DK; mkdir -p $D; cp $SRC/* $D/
python3 - <<PY
import json
m=json.load(open('$D/meta.json'))
m['confirmed']={'demo_clean_rc':$RC_CLEAN,'demo_patched_rc':$RC_PATCHED,'existing_tests_rc':$RC_TESTS,'existing_tests':'go test -vet=off -count=1 -skip TestTokenBucketFilter $PKGS'}
m['checks_run']='$RESULT'.split()
json.dump(m,open('$D/meta.json','w'),indent=1)
PY
