#!/usr/bin/env python3
# Regenerates /verif/MANIFEST.json from the list of properties the driver knows (bin/check --list).
import json, subprocess
props=[json.loads(l) for l in open('/verif/properties.jsonl')]
claimed=set(subprocess.check_output(['/verif/bin/check','--list']).decode().split())
notes=json.load(open('/verif/tools/manifest_notes.json'))
checks=[]
for p in props:
    i=p['id']
    if i in claimed:
        n=notes.get(i,{})
        checks.append({
          "property_id":i,
          "quick_cmd":"/verif/bin/check %s --tier quick"%i,
          "thorough_cmd":"/verif/bin/check %s --tier thorough"%i,
          "evidence_file":"/verif/evidence/%s.json"%i,
          "replay_cmd_template":"/verif/bin/check %s --replay {path}"%i,
          "engine":"simrt",
          "level_claimed":{"category":"exploration","text":n.get("text","seeded random exploration of schedules and faults of the real code under a deterministic simulator, with a reference-model oracle; a clean batch is evidence, not proof"),"design_ref":"DESIGN.md §3 "+i},
          "level_note":n.get("note","trusted: Go runtime/synctest, simgen rewrite, simrt controller, the reference model of the oracle"),
          "technique":n.get("technique","deterministic simulation with fault injection (seeded schedule/fault search, replayable minimised traces)")})
na=[{"property_id":p['id'],"reason":"check not built yet (work in progress)"} for p in props if p['id'] not in claimed and p['id']!='C20']
na.append({"property_id":"C20","reason":"XorBytes is a pure, stateless function of its inputs: no schedule, clock, fault or interleaving for a simulator to control (DESIGN.md §4)"})
m={"version":1,"setup_cmd":"/verif/setup.sh","hooks":{"guard":"verif","enable":"no hooks are committed to /repo: every check instruments a scratch copy of /repo's working tree at check time (simgen)","baseline_off_cmd":"cd /repo && go test -vet=off -count=1 -timeout 25m ./...","source_commits":[],"add_only":True},
 "engines":[{"name":"simrt","path":"/verif/sim","serves_properties":sorted(claimed),"kind_free_text":"deterministic simulation: synctest bubble + source-level yield points (simgen) + controller releasing one worker at a time from a choice tape; fault injection through stubs and the controller"}],
 "checks":checks,"not_applicable":na,"notes":"see DESIGN.md; known_findings.json lists repaired and recorded findings"}
json.dump(m,open('/verif/MANIFEST.json','w'),indent=1)
print("claimed:",sorted(claimed))
