#!/bin/bash
# usage: seedmatrix.sh [budget]   — applies every change under /verif/seeded/ to /repo in turn,
# runs the quick check of its own property (and the extra checks named in meta.json "also"),
# reverts /repo, and writes /verif/seeded/MATRIX.txt (one line per change).
export GOFLAGS=-mod=mod GOPROXY=off GOSUMDB=off GOTOOLCHAIN=local
B=${1:-20}
OUT=/verif/seeded/MATRIX.txt
[ -z "$(git -C /repo status --porcelain)" ] || { echo "/repo dirty"; exit 2; }
: > $OUT.tmp
for d in /verif/seeded/C*/; do
  n=$(basename $d); P=${n%%-*}
  git -C /repo apply $d/patch.diff 2>/dev/null || { echo "$n patch-does-not-apply" >> $OUT.tmp; continue; }
  O=$(/verif/bin/check $P --no-evidence --budget $B 2>&1); rc=$?
  git -C /repo checkout -- .
  cl=$(echo "$O" | grep -m1 "class=" | sed 's/^ *//' | cut -d' ' -f1)
  echo "$n rc=$rc $cl" >> $OUT.tmp
done
mv $OUT.tmp $OUT
