#!/bin/bash
# usage: seedmatrix.sh [budget] [new]  — applies every change under /verif/seeded/ to /repo in turn,
# runs the quick check that was recorded for it when it was stored (meta.json "checks_run";
# default: the check of its own property), reverts /repo, and writes /verif/seeded/MATRIX.txt
# (one line per change). With "new" as second argument only changes that have no line yet are run
# and their lines are appended.
export GOFLAGS=-mod=mod GOPROXY=off GOSUMDB=off GOTOOLCHAIN=local
B=${1:-20}
OUT=/verif/seeded/MATRIX.txt
[ -z "$(git -C /repo status --porcelain)" ] || { echo "/repo dirty"; exit 2; }
if [ "$2" = new ]; then cp $OUT $OUT.tmp; else : > $OUT.tmp; fi
for d in /verif/seeded/C*/; do
  n=$(basename $d); P=${n%%-*}
  if [ "$2" = new ] && grep -q "^$n " $OUT; then continue; fi
  C=$(python3 -c "
import json,re
m=json.load(open('$d/meta.json'))
ids=[re.match(r'C\d\d',x).group(0) for x in m.get('checks_run',[]) if re.match(r'C\d\d',x)]
print(' '.join(ids) if ids else '$P')")
  git -C /repo apply $d/patch.diff 2>/dev/null || { echo "$n patch-does-not-apply" >> $OUT.tmp; continue; }
  line="$n"
  for c in $C; do
    # the port-exhaustion profile of C02/C03 is rare in the quick tier: changes that need it say so in their summary
    unset VERIF_C02_EXHAUST
    if grep -qi "16384\|exhaust" $d/meta.json && { [ $c = C02 ] || [ $c = C03 ]; }; then export VERIF_C02_EXHAUST=1; fi
    O=$(/verif/bin/check $c --no-evidence --budget $B 2>&1); rc=$?
    cl=$(echo "$O" | grep -m1 "class=" | sed 's/^ *//' | cut -d' ' -f1)
    line="$line $c:rc=$rc $cl"
  done
  unset VERIF_C02_EXHAUST
  git -C /repo checkout -- .
  echo "$line" >> $OUT.tmp
done
mv $OUT.tmp $OUT
