#!/bin/bash
# Builds the verification tooling from files on disk only (offline).
set -e
export GOFLAGS=-mod=mod GOPROXY=off GOSUMDB=off GOTOOLCHAIN=local GOWORK=off
V=${VERIF_DIR:-/verif}
cd $V
mkdir -p bin evidence replays
(cd sim/simgen && go1.26.8 build -o $V/bin/simgen .)
(cd cmd/check && go build -o $V/bin/check .)
# warm the go1.26.8 build cache (std + harness deps), with and without the race detector
$V/bin/check C08 --warm >/dev/null 2>&1 || true
$V/bin/check C19 --warm >/dev/null 2>&1 || true
echo "setup ok"
