module verif/check

go 1.23
