// check is the driver of one property check: it rebuilds an instrumented scratch copy of
// /repo's working tree, builds the property's harness against it, fans out exploring
// processes, confirms failures by replay in a fresh process, matches them against
// /verif/known_findings.json, writes /verif/evidence/<id>.json and prints
// VIOLATION / KNOWN-FINDING lines. Exit 0 = held, 1 = violation, 2 = infrastructure.
package main

import (
	"bufio"
	"encoding/json"
	"flag"
	"fmt"
	"os"
	"os/exec"
	"path/filepath"
	"sort"
	"strconv"
	"strings"
	"sync"
	"time"
)

// VERIF_DIR / VERIF_REPO let a background run work from a snapshot (vp run); the registered
// commands use the defaults.
var (
	verifDir = envOr("VERIF_DIR", "/verif")
	repoDir  = envOr("VERIF_REPO", "/repo")
)

type propCfg struct {
	Pkgs        []string // packages to instrument
	Dir         string   // harness directory (default: lower-case id)
	Race        bool
	QuickS      int // exploration budget in seconds per process
	ThoroughS   int
	Procs       int
	Components  []string
	Stubs       []string
	Assumptions []string
	Rule        string
}

var allPkgs = []string{"packetio", "deadline", "dpipe", "netctx", "connctx", "replaydetector", "test", "vnet", "udp", "zzverif/simnet"}

var props = map[string]*propCfg{}

func init() {
	def := func(id string, c *propCfg) {
		if c.Pkgs == nil {
			c.Pkgs = allPkgs
		}
		if c.QuickS == 0 {
			c.QuickS = 25
		}
		if c.ThoroughS == 0 {
			c.ThoroughS = 600
		}
		props[id] = c
	}
	stdAssume := []string{
		"code compiled by go1.26.8 (needed for testing/synctest), per-module language version go1.20 kept",
		"between two controller decisions exactly one worker runs; goroutines woken by a real channel operation park at once (post-block yield)",
		"exploration is seeded random sampling of schedules/faults: absence of a violation is evidence, not proof",
	}
	rdRule := "delivery history produced by a seeded fault pipeline (sender with jumps around window/word/half-space sizes and, for maxima >= 2^63, jumps around 2^63; loss, duplication, delay/reordering, attacker replays incl. numbers just behind/at/ahead of the highest number delivered so far, authentication failures); configuration swarm over window sizes and maxima. Non-trivial: >=1 replay attempt refused and >=3 numbers accepted; distinct = hash of (configuration, history). No interleaving is explored (sequential code)"
	def("Z00", &propCfg{Dir: "zz", Pkgs: []string{"zzverif/probe"}, QuickS: 10,
		Components: []string{"self-test of the instrumenter: sync.Cond, embedded mutexes, RWMutex.TryLock, context.AfterFunc, sync.Pool, method values"},
		Rule:       "producer/consumer programs over a Cond-based queue and friends; no property of pion/transport"})
	def("C04", &propCfg{Dir: "c04", Pkgs: []string{"replaydetector"},
		Components: []string{"real: replaydetector (plain and wrapping)", "simulated environment: sender/network/attacker/auth pipeline"}, Assumptions: stdAssume, Rule: rdRule})
	def("C05", &propCfg{Dir: "c04", Pkgs: []string{"replaydetector"},
		Components: []string{"real: replaydetector (plain and wrapping)", "simulated environment: sender/network/attacker/auth pipeline"}, Assumptions: stdAssume, Rule: rdRule})
	bufRule := "two run classes per seed: (a) sequential histories of Write/Read/SetLimitCount/SetLimitSize/Close with length profiles around the ring's growth sizes 2048*2^k and the 4 MiB cap, compared operation by operation with a FIFO reference model; (b) concurrent histories (<=3 writers, <=3 readers, limit changer, closer under the controller) whose invoke/return history is checked for linearizability against the same model with porcupine. Non-trivial: sequential >=2 writes and >=1 read, distinct = hash of the history; concurrent >=3 workers and >=1 context switch, distinct = schedule hash"
	def("C06", &propCfg{Dir: "c06", Pkgs: []string{"packetio", "deadline"},
		Components: []string{"real: packetio.Buffer, deadline.Deadline", "oracle: FIFO reference model; porcupine v1.3.0 for concurrent histories"}, Assumptions: stdAssume, Rule: bufRule})
	def("C07", &propCfg{Dir: "c06", Pkgs: []string{"packetio", "deadline"},
		Components: []string{"real: packetio.Buffer, deadline.Deadline", "oracle: FIFO reference model with limits; porcupine v1.3.0 for concurrent histories"}, Assumptions: stdAssume, Rule: bufRule})
	def("C18", &propCfg{Pkgs: []string{"test", "dpipe", "deadline"},
		Components: []string{"real: test.Bridge with its two endpoints (readers are concurrent workers; Push/Process sleeps run on the fake clock), dpipe.Pipe", "oracle: reference model of the script per direction (queue, pending drop count, pending reorder stack, filter)"},
		Assumptions: append([]string{"drop and reorder requests pending at the same time on one direction are not generated (their relative priority is not stated)", "Drop with an offset beyond the queue is not generated"}, stdAssume...),
		Rule: "script histories: writes in both directions interleaved with DropNextNWrites, ReorderNextNWrites (n=0,1,2.., repeated), Drop, Reorder, Filter, Process (Bridge) or writes/reads/close on both ends (dpipe), message sizes 0..9000, reader slices shorter and longer than the messages. Non-trivial: >=2 writes and >=4 operations; distinct = hash of the script"})
	def("C14", &propCfg{Pkgs: []string{"vnet"},
		Components: []string{"real: vnet.DelayFilter (Run is a worker; arrivals through the in-package injector, forwards observed by the stamping sink NIC adaptor) and vnet.Router with MinDelay/MaxJitter between two real vnet hosts", "adaptor: sim/adaptors/vnet (sink NIC + injector, no logic of the code under test)"},
		Assumptions: append([]string{"'eventually forwarded' is evaluated after 10 simulated minutes without new arrivals (all configured delays are <= 50 ms)"}, stdAssume...),
		Rule: "delay in {0,1ns,1us,0.2ms,1ms,20ms,50ms}; 1-3 producers with arrival patterns (bursts, spacing = delay +-1ns, half/double delay, occasionally floods of 65-300 back-to-back arrivals followed by silence); both timer-channel modes; router variant with jitter, chain of two delaying routers, router restart with datagrams waiting. Non-trivial: >=2 workers and >=1 context switch; distinct = schedule hash"})
	def("C15", &propCfg{Pkgs: []string{"vnet"},
		Components: []string{"real: vnet.TokenBucketFilter (its run goroutine is a worker), runtime Set(TBFRate/TBFMaxBurst)", "adaptor: sim/adaptors/vnet (sink NIC stamping at the instant of hand-over + injector)"},
		Assumptions: append([]string{"across a run-time change the larger of the values in force during the interval is used (sound over-approximation)", "a datagram counts as discarded only if a later arrival was forwarded; queue occupancy at its arrival is over-approximated from stamps"}, stdAssume...),
		Rule: "rates 100k..8Mbit/s, bursts 100..20000 B, queue sizes 100..50000 B; 1-2 producers with idle gaps around multiples of 100 ms, bursts far above the rate, sizes 0..above the burst; optional reconfigurer; every pair of forwarded datagrams is checked against burst + rate*dt. Non-trivial: >=3 datagrams forwarded; distinct = schedule hash"})
	def("C16", &propCfg{Pkgs: []string{"vnet"},
		Components: []string{"real: vnet.LossFilter; its math/rand draws are served by the simulator's seeded stream (rand.Seed is a no-op)", "adaptor: sim/adaptors/vnet (sink NIC + injector)"},
		Assumptions: append([]string{"distribution-level test: |dropped - N*c/100| <= 6 sigma (false-alarm probability per run < 2e-9) rather than a per-draw oracle that would mirror the implementation"}, stdAssume...),
		Rule: "stream of N tagged datagrams (N = 2*10^5 quick / 2*10^6 thorough per run) for one chance value per run, chances 0..100 and -5, 101, 250. Non-trivial: 0 < chance < 100; distinct = (chance, random stream seed)"})
	def("C10", &propCfg{
		Components: []string{"real: packetio.Buffer, dpipe, udp listener connections (over the simnet UDP kernel stub), vnet.UDPConn (two hosts on one router), test.Bridge endpoint (with a ticker worker), deadline.Deadline", "stub: simnet in-memory UDP kernel under the udp package"},
		Assumptions: append([]string{"'a read after the deadline passed must time out' is asserted only once the expiry has been observed (an earlier read timed out under the same setting) or the deadline was already past when set: a timer callback that has not run yet is a legitimate race", "liveness is evaluated at quiescence only"}, stdAssume...),
		Rule: "per run one connection type; three workers: deadline setter (zero/past/near/far, the value of an earlier Set again, a fixed instant long ago; SetReadDeadline or SetDeadline), reader (bounded reads with idle periods), writer (datagram arrivals), with sleeps equal to / around the deadline durations; both timer-channel modes. Non-trivial: >=2 workers and >=1 context switch; distinct = schedule hash"})
	def("C17", &propCfg{Pkgs: []string{"netctx", "connctx", "zzverif/simnet"},
		Components: []string{"real: netctx.Conn, netctx.PacketConn, connctx.ConnCtx (their watcher goroutines are workers)", "stub: simnet stream/packet pipes with deadlines, partial writes, short reads, a ground-truth byte log and an injectable SetDeadline error"},
		Assumptions: append([]string{"after an injected SetDeadline failure only 'the operation returns' is required for that run", "one reader and one writer worker per end, so the leftover-deadline check right after a return cannot race with the next operation of the same direction"}, stdAssume...),
		Rule: "stream and packet flavours; per end a reader and a writer issuing <=4 operations each with contexts that are background, already cancelled, cancelled by a canceller worker after 0..1ms, or WithTimeout on the fake clock, optionally cancelled by the caller once the call returned (defer cancel()); zero-length reads and writes; optional second reader/writer per end; pipe capacities 1..4096 (back-pressure, partial writes), short reads; one injected SetDeadline failure. Non-trivial: >=2 workers and >=1 context switch; distinct = schedule hash"})
	udpRule := "listener over the stub kernel in plain and batch mode, backlog 1..8, optional accept filter on the first payload byte; <=5 remote sockets sending tagged datagrams with gaps 0..5ms; acceptor, one reader per accepted connection (closing after k reads or reading until error), racy closers for connections and listener, repeated Close, lagging readers, datagram sizes around the connection ring (2 KiB) and the receive MTU, kernel faults (drop/duplicate/delay-reorder), injected socket read error, an unsendable last write (oversize or failing send) before everything is closed. Non-trivial: >=2 workers and >=1 context switch; distinct = schedule hash"
	udpPkgs := []string{"udp", "packetio", "deadline", "zzverif/simnet"}
	def("C11", &propCfg{Dir: "c11", Pkgs: udpPkgs,
		Components: []string{"real: udp listener/Conn/BatchConn, packetio.Buffer, deadline.Deadline", "stub: simnet UDP kernel (port table, receive queues, recvmmsg/sendmmsg-style batch calls, fault plan); it records what ReadFrom/ReadBatch returned, which is the arrival order the property is stated against"},
		Assumptions: append([]string{"a datagram that reached the socket but no connection must be explained by one of: unread when its connection was closed, refused by the filter, backlog possibly full (over-approximated from stamps), listener closing, connection nobody accepted before a racy listener close, injected socket error"}, stdAssume...), Rule: udpRule})
	def("C12", &propCfg{Dir: "c11", Pkgs: udpPkgs,
		Components: []string{"real: udp listener/Conn/BatchConn, packetio.Buffer, deadline.Deadline", "stub: simnet UDP kernel; it records every Close of the shared socket"},
		Assumptions: stdAssume, Rule: udpRule})
	def("C13", &propCfg{Pkgs: []string{"vnet", "deadline"},
		Components: []string{"real: vnet.Router address assignment (AddNet/AddRouter), vnet.Net bind paths (ListenUDP/ListenPacket/Dial/DialUDP/Close), conn map, datagram demultiplexing through a started router", "adaptor: reads a child router's WAN addresses", "oracle: reference model (set of held addresses; set of open sockets with wildcard rules); porcupine for concurrent bind histories"},
		Assumptions: append([]string{"duplicate static addresses supplied by the user are not generated (left unconstrained by the property)"}, stdAssume...),
		Rule: "(a) assignment histories: 1-14 (occasionally >250) NICs/child routers with distinct static addresses inside/outside the automatic range and outside the subnet, automatic assignment, subnets /16 /24 /28; (b) bind histories by 1-3 concurrent workers with specific, wildcard, loopback, foreign and IPv6 (::, ::1) addresses, explicit and zero ports, closes and probe datagrams; occasionally a 1000-port sweep of the ephemeral range. Non-trivial: >=2 NICs / >=3 operations / >=1 context switch; distinct = hash of the history or schedule hash"})
	natRule := "end-to-end topology: root router with remote hosts (two sockets per host: same IP, other port), one NAT'd LAN router (3x3 mapping/filtering behaviours, lifetimes 50ms/1s/30s, or 1:1 mode with 1-3 IP pairs) with internal hosts; histories of 2-60 outbound / inbound (to learned live or expired external addresses, never-allocated ports, unpaired IPs) / idle (around the lifetime: L-1ms, L, L+1ms, 0.6L, 2L) events; two sets of remote addresses (textual prefixes of each other / equal low 16 bits), optional second router address; occasionally 16385 mappings first (port reuse, re-activation, a refused flow sending twice while every port is held). Non-trivial: >=2 mappings created or inbound datagrams judged (or 1:1 mode); distinct = hash of configuration and history"
	natPkgs := []string{"vnet", "deadline"}
	def("C02", &propCfg{Dir: "c02", Pkgs: natPkgs, Components: []string{"real: vnet routers, NAT, hosts, sockets (router goroutines are workers)", "oracle: reference NAT model that learns external ports from observation; mapping liveness three-valued around the lifetime (interval reasoning)"},
		Assumptions: append([]string{"reuse of an expired external port is left open", "a mapping created by a datagram to an unbound remote port has an unobserved external address; while such a mapping may be live, 'no mapping owns this address' is not asserted"}, stdAssume...), Rule: natRule})
	def("C03", &propCfg{Dir: "c02", Pkgs: natPkgs, Components: []string{"real: vnet routers, NAT, hosts, sockets (router goroutines are workers)", "oracle: reference NAT model (permissions per mapping under the filtering behaviour); refused datagrams are ignored by the model, so any side effect shows up as a later disagreement"},
		Assumptions: append([]string{"reuse of an expired external port is left open", "a mapping created by a datagram to an unbound remote port has an unobserved external address; while such a mapping may be live, 'no mapping owns this address' is not asserted"}, stdAssume...), Rule: natRule})
	def("C01", &propCfg{Pkgs: []string{"vnet", "deadline"},
		Components: []string{"real: vnet routers (one forwarding goroutine each, a worker), NATs of every mode, hosts, sockets, chunk queues; nothing in vnet is stubbed", "oracle: reference routing model (routing-table walk per hop, host demultiplexing with wildcard and connected-socket rules, composed NAT chain identity for source consistency, per-level permission sets for inbound admission)"},
		Assumptions: append([]string{"NAT lifetimes are longer than the run (expiry is C02/C03's subject)", "datagrams to a NAT router's own external address are judged only in phase 2, from sockets on the network that observed the address", "in runs with router stop/start, a bounded queue or a dropping chunk filter 'no loss' is not asserted (integrity, at-most-once, only-its-socket, order and source still are)", "datagrams shorter than 12 bytes carry no tag: they are checked for 'arrives only where such a datagram was sent', not for loss or duplication"}, stdAssume...),
		Rule: "topologies: root + 1-4 (thorough: 1-7) LAN routers nested to depth 3 with random NAT type (3x3 NAPT or 1:1), MinDelay/MaxJitter/QueueSize/chunk filter options; 1-2 hosts per router with automatic/one/two addresses; specific, wildcard and Dial-connected sockets; 3-120 datagrams of 0..1500 bytes from concurrent senders to bound sockets, unbound ports, unroutable and unheld addresses and loopback; then replies, unsolicited, hairpinned (from behind the same NAT) and plain datagrams to observed translated sources / sockets; occasionally a socket nobody reads while 1000-1100 datagrams are sent to it (receive queue 1024), or a socket closed, re-bound and closed again during traffic; fault class: router stop/start during traffic. Non-trivial: >=2 workers and >=1 context switch; distinct = schedule hash"})
	def("C19", &propCfg{Race: true,
		Components: []string{"real: packetio, deadline, dpipe, vnet (sockets, routers, filters, network construction), udp (over the simnet stub), all built with -race", "oracle: the Go race detector; the controller's own synchronisation is hidden from it (RaceDisable around the park/resume hand-over and simrt's internal locks, //go:norace bookkeeping), so the happens-before relation it sees is the program's"},
		Assumptions: append([]string{"a report counts when both racing accesses are in pion/transport code, or one is there and the other in the generated client program", "the race detector reports each race once per process, so failures are replayed (not minimised) in a fresh process"}, stdAssume...),
		Rule: "client programs generated from operations documented or tested as concurrency-safe: packet buffer, deadline, dpipe, vnet sockets/router/host API under traffic, independent networks built in parallel, TokenBucketFilter.Set under traffic, DelayFilter, independent loss/token-bucket filter instances per client, udp listener and connections (also batch mode); 2-4 client workers with 2-8 operations each plus the packages' own goroutines. Non-trivial: >=2 workers and >=1 context switch; distinct = schedule hash"})
	def("C09", &propCfg{
		Components:  []string{"real: deadline.Deadline over simrt.Timer (AfterFunc callbacks are workers parked at their entry, so a dispatched-but-unrun callback can be overtaken by further Set calls)", "stub: none"},
		Assumptions: stdAssume,
		Rule:        "history of Set(zero|past|future d)/sleep ops by one setter (sleep durations equal to / 1ns around outstanding deadlines), 0-2 concurrent observers; oracle after every op and at quiescence. Non-trivial: >=2 workers and >=1 context switch; distinct = schedule hash",
	})
	def("C08", &propCfg{
		Components:  []string{"real: packetio.Buffer, deadline.Deadline (instrumented at check time from the working tree)", "stub: none"},
		Assumptions: stdAssume,
		Rule:        "scenario = readers (bounded number of reads), writers, optional early closer and SetReadDeadline worker, generated from the run seed; schedule from the choice tape (uniform / sticky / PCT strategies). A run is non-trivial if >=2 workers ran and >=1 context switch happened; distinct = distinct hash of the (worker, site) schedule trace",
	})
}

func main() {
	if len(os.Args) < 2 {
		fmt.Fprintln(os.Stderr, "usage: check <ID> [--tier quick|thorough] [--replay file] [--procs n] [--budget seconds] [--keep]")
		os.Exit(2)
	}
	if os.Args[1] == "--fidelity" {
		os.Exit(fidelity())
	}
	if os.Args[1] == "--list" {
		var ids []string
		for id := range props {
			if strings.HasPrefix(id, "Z") {
				continue // self-tests of the machinery, not properties
			}
			ids = append(ids, id)
		}
		sort.Strings(ids)
		fmt.Println(strings.Join(ids, " "))
		return
	}
	id := strings.ToUpper(os.Args[1])
	fs := flag.NewFlagSet("check", flag.ExitOnError)
	tier := fs.String("tier", envOr("VERIF_TIER", "quick"), "quick or thorough")
	replay := fs.String("replay", "", "replay file")
	procs := fs.Int("procs", 0, "number of exploring processes")
	budget := fs.Int("budget", 0, "seconds per process (overrides the tier default)")
	keep := fs.Bool("keep", false, "keep the scratch directory")
	noEvidence := fs.Bool("no-evidence", false, "do not write the evidence file")
	warm := fs.Bool("warm", false, "only build (warms the build cache)")
	selftest := fs.Int("selftest", 0, "determinism self-test: N runs per process, 30+ processes at GOMAXPROCS 1/4/16, run logs diffed")
	_ = fs.Parse(os.Args[2:])
	pc := props[id]
	curProp = id
	if pc == nil {
		fmt.Fprintf(os.Stderr, "check: unknown property %s\n", id)
		os.Exit(2)
	}
	if *tier != "quick" && *tier != "thorough" {
		*tier = "quick"
	}
	seed := uint64(1)
	if v := os.Getenv("VERIF_SEED"); v != "" {
		if u, err := strconv.ParseUint(v, 10, 64); err == nil {
			seed = u
		} else if i, err := strconv.ParseInt(v, 10, 64); err == nil {
			seed = uint64(i)
		}
	}
	if *warm {
		scratch := fmt.Sprintf("/dev/shm/verif-warm-%d", os.Getpid())
		defer os.RemoveAll(scratch)
		if _, err := build(id, pc, scratch); err != nil {
			fmt.Println(err)
			os.RemoveAll(scratch)
			os.Exit(2)
		}
		os.RemoveAll(scratch)
		return
	}
	if *selftest > 0 {
		os.Exit(selfTest(id, pc, seed, *selftest))
	}
	os.Exit(runCheck(id, pc, *tier, seed, *replay, *procs, *budget, *keep, *noEvidence))
}

func envOr(k, d string) string {
	if v := os.Getenv(k); v != "" {
		return v
	}
	return d
}

var curProp string

func goEnv() []string {
	env := os.Environ()
	env = append(env, "VERIF_PROP="+curProp)
	env = append(env, "GOFLAGS=-mod=mod", "GOPROXY=off", "GOSUMDB=off", "GOTOOLCHAIN=local", "GOWORK=off")
	return env
}

func sh(dir string, env []string, name string, args ...string) (string, error) {
	cmd := exec.Command(name, args...)
	cmd.Dir = dir
	cmd.Env = env
	out, err := cmd.CombinedOutput()
	return string(out), err
}

func infra(format string, args ...interface{}) int {
	fmt.Printf("INFRASTRUCTURE-ERROR "+format+"\n", args...)
	return 2
}

// build prepares the scratch directory and returns the path of the harness binary.
func build(id string, pc *propCfg, scratch string) (string, error) {
	lid := strings.ToLower(id)
	if pc.Dir != "" {
		lid = pc.Dir
	}
	repo := filepath.Join(scratch, "repo")
	if err := os.MkdirAll(repo, 0o755); err != nil {
		return "", err
	}
	if out, err := sh("/", nil, "rsync", "-a", "--exclude", ".git", "--exclude", "examples", "--exclude", "*_test.go", repoDir+"/", repo+"/"); err != nil {
		return "", fmt.Errorf("copy working tree: %v\n%s", err, out)
	}
	zz := filepath.Join(repo, "zzverif")
	_ = os.MkdirAll(zz, 0o755)
	for _, p := range []string{"simrt", "simnet", "harn", "probe"} {
		if out, err := sh("/", nil, "rsync", "-a", filepath.Join(verifDir, "sim", p)+"/", filepath.Join(zz, p)+"/"); err != nil {
			return "", fmt.Errorf("copy %s: %v\n%s", p, err, out)
		}
	}
	// in-package adaptors
	adaptors, _ := filepath.Glob(filepath.Join(verifDir, "sim", "adaptors", "*", "*.go"))
	for _, a := range adaptors {
		pkg := filepath.Base(filepath.Dir(a))
		b, err := os.ReadFile(a)
		if err != nil {
			return "", err
		}
		if err := os.WriteFile(filepath.Join(repo, pkg, filepath.Base(a)), b, 0o644); err != nil {
			return "", err
		}
	}
	if out, err := sh(repo, goEnv(), filepath.Join(verifDir, "bin", "simgen"), append([]string{"-root", repo}, pc.Pkgs...)...); err != nil {
		return "", fmt.Errorf("simgen: %v\n%s", err, out)
	}
	h := filepath.Join(scratch, "h")
	if err := os.MkdirAll(filepath.Join(h, lid), 0o755); err != nil {
		return "", err
	}
	if out, err := sh("/", nil, "rsync", "-a", filepath.Join(verifDir, "harness", lid)+"/", filepath.Join(h, lid)+"/"); err != nil {
		return "", fmt.Errorf("copy harness: %v\n%s", err, out)
	}
	gomod := "module verifharness\n\ngo 1.26.8\n\nrequire (\n\tgithub.com/pion/transport/v3 v3.0.0\n\tgithub.com/anishathalye/porcupine v1.3.0\n)\n\nreplace github.com/pion/transport/v3 => ../repo\n"
	if err := os.WriteFile(filepath.Join(h, "go.mod"), []byte(gomod), 0o644); err != nil {
		return "", err
	}
	sum, _ := os.ReadFile(filepath.Join(repoDir, "go.sum"))
	extra, _ := os.ReadFile(filepath.Join(verifDir, "sim", "go.sum.extra"))
	if err := os.WriteFile(filepath.Join(h, "go.sum"), append(sum, extra...), 0o644); err != nil {
		return "", err
	}
	bin := filepath.Join(h, lid+".test")
	args := []string{"test", "-c", "-vet=off", "-o", bin}
	if pc.Race {
		args = append(args, "-race")
	}
	args = append(args, "./"+lid+"/")
	if out, err := sh(h, goEnv(), "go1.26.8", args...); err != nil {
		return "", fmt.Errorf("build harness: %v\n%s", err, out)
	}
	return bin, nil
}

type failure struct {
	RunSeed uint64 `json:"runSeed"`
	Class   string `json:"class"`
	Detail  string `json:"detail"`
	Replay  string `json:"replay"`
	Repro   bool   `json:"reproduced"`
	Steps   int    `json:"steps"`
}

type summary struct {
	Property   string            `json:"property"`
	Proc       int               `json:"proc"`
	Runs       int               `json:"runs"`
	Steps      int64             `json:"steps"`
	SimNanos   int64             `json:"simNanos"`
	WallS      float64           `json:"wallS"`
	NonTrivial int               `json:"nonTrivial"`
	Keys       []uint64          `json:"keys"`
	Faults     map[string]int    `json:"faults"`
	Probes     map[string]int    `json:"probes"`
	Strategies map[string]int    `json:"strategies"`
	Samples    []json.RawMessage `json:"samples"`
	Failures   []failure         `json:"failures"`
	Infra      []string          `json:"infra"`
	InfraN     int               `json:"infraN"`
	StepLimitN int               `json:"stepLimitN"`
	Stalls     int               `json:"stalls"`
	TimeJumps  int               `json:"timeJumps"`
	MaxWorkers int               `json:"maxWorkers"`
	FirstSeeds []uint64          `json:"firstSeeds"`
}

type knownFinding struct {
	Property    string `json:"property"`
	Class       string `json:"class"`       // exact class key, or prefix when it ends in '*'
	Description string `json:"description"` // what fails
}

type knownFile struct {
	Known []knownFinding `json:"known"`
	Fixed []string       `json:"fixed"`
}

func loadKnown() knownFile {
	var k knownFile
	b, err := os.ReadFile(filepath.Join(verifDir, "known_findings.json"))
	if err == nil {
		_ = json.Unmarshal(b, &k)
	}
	return k
}

func (k knownFile) match(id, class string) *knownFinding {
	for i := range k.Known {
		f := &k.Known[i]
		if f.Property != id {
			continue
		}
		if f.Class == class || (strings.HasSuffix(f.Class, "*") && strings.HasPrefix(class, strings.TrimSuffix(f.Class, "*"))) {
			return f
		}
	}
	return nil
}

func runCheck(id string, pc *propCfg, tier string, seed uint64, replay string, procs, budget int, keep, noEvidence bool) int {
	start := time.Now()
	scratch := fmt.Sprintf("/dev/shm/verif-%s-%d", strings.ToLower(id), os.Getpid())
	_ = os.RemoveAll(scratch)
	if !keep {
		defer os.RemoveAll(scratch)
	} else {
		fmt.Println("scratch:", scratch)
	}
	bin, err := build(id, pc, scratch)
	if err != nil {
		return infra("%v", err)
	}
	buildS := time.Since(start).Seconds()
	if replay != "" {
		return doReplay(id, bin, replay, true)
	}
	if procs == 0 {
		procs = pc.Procs
	}
	if procs == 0 {
		procs = 16
	}
	if budget == 0 {
		budget = pc.QuickS
		if tier == "thorough" {
			budget = pc.ThoroughS
		}
	}
	// regression replays: minimised traces of findings that were repaired; they must
	// not fail again
	var regressLines []string
	regressFail := 0
	regs, _ := filepath.Glob(filepath.Join(verifDir, "regress", id, "*.json"))
	sort.Strings(regs)
	for _, rp := range regs {
		switch doReplay(id, bin, rp, false) {
		case 1:
			regressFail++
			regressLines = append(regressLines, fmt.Sprintf("VIOLATION property=%s replay=%s\n  a repaired finding has returned (regression replay reproduces its violation)", id, rp))
		case 2:
			regressLines = append(regressLines, fmt.Sprintf("note: regression replay %s ended with a different outcome than recorded (code changed); exploration decides", rp))
		}
	}
	outDir := filepath.Join(scratch, "out")
	repDir := filepath.Join(scratch, "replays")
	_ = os.MkdirAll(outDir, 0o755)
	_ = os.MkdirAll(repDir, 0o755)
	var wg sync.WaitGroup
	errs := make([]string, procs)
	for p := 0; p < procs; p++ {
		wg.Add(1)
		go func(p int) {
			defer wg.Done()
			env := append(goEnv(),
				"VERIF_MODE=explore", fmt.Sprintf("VERIF_SEED=%d", seed), fmt.Sprintf("VERIF_PROC=%d", p),
				fmt.Sprintf("VERIF_BUDGET_S=%d", budget), "VERIF_TIER="+tier,
				"VERIF_OUT="+filepath.Join(outDir, fmt.Sprintf("sum-%d.json", p)),
				"VERIF_REPLAY_DIR="+repDir, "GOMAXPROCS=2",
				"GORACE=halt_on_error=0 log_path="+filepath.Join(outDir, fmt.Sprintf("race-%d", p)))
			timeout := time.Duration(budget)*time.Second*3 + 5*time.Minute
			cmd := exec.Command(bin, "-test.run", "^TestSim$", "-test.timeout", timeout.String(), "-test.count=1")
			cmd.Env = env
			cmd.Dir = scratch
			out, err := cmd.CombinedOutput()
			if err != nil {
				if _, serr := os.Stat(filepath.Join(outDir, fmt.Sprintf("sum-%d.json", p))); serr == nil && pc.Race {
					return // race builds: the test binary exits 1 when the detector reported anything; the summary decides
				}
				errs[p] = fmt.Sprintf("proc %d: %v\n%s", p, err, tail(string(out), 4000))
			}
		}(p)
	}
	wg.Wait()
	for p, e := range errs {
		if e == "" {
			continue
		}
		// the harness process died: if the run it was executing kills a fresh process in
		// the same way, the code under test crashes (fatal runtime error) - a violation
		cur := filepath.Join(outDir, fmt.Sprintf("sum-%d.json.current.json", p))
		if _, serr := os.Stat(cur); serr == nil {
			if class, detail := replayCrash(bin, cur); class != "" {
				_ = os.MkdirAll(filepath.Join(verifDir, "replays"), 0o755)
				dst := filepath.Join(verifDir, "replays", fmt.Sprintf("%s-crash-%d.json", id, seed))
				copyFile(cur, dst)
				if kf := loadKnown().match(id, class); kf != nil {
					fmt.Printf("KNOWN-FINDING: property=%s %s [class=%s replay=%s]\n", id, kf.Description, class, dst)
					return 0
				}
				fmt.Printf("VIOLATION property=%s replay=%s\n  class=%s\n  %s\n", id, dst, class, indent(head(detail, 2500)))
				return 1
			}
		}
		return infra("harness process failed: %s", e)
	}
	// merge
	merged := summary{Property: id, Faults: map[string]int{}, Probes: map[string]int{}, Strategies: map[string]int{}}
	keys := map[uint64]bool{}
	for p := 0; p < procs; p++ {
		b, err := os.ReadFile(filepath.Join(outDir, fmt.Sprintf("sum-%d.json", p)))
		if err != nil {
			return infra("missing summary of process %d: %v", p, err)
		}
		var s summary
		if err := json.Unmarshal(b, &s); err != nil {
			return infra("bad summary of process %d: %v", p, err)
		}
		merged.Runs += s.Runs
		merged.Steps += s.Steps
		merged.SimNanos += s.SimNanos
		merged.NonTrivial += s.NonTrivial
		merged.InfraN += s.InfraN
		merged.StepLimitN += s.StepLimitN
		merged.Stalls += s.Stalls
		merged.TimeJumps += s.TimeJumps
		if s.MaxWorkers > merged.MaxWorkers {
			merged.MaxWorkers = s.MaxWorkers
		}
		for _, k := range s.Keys {
			keys[k] = true
		}
		for k, n := range s.Faults {
			merged.Faults[k] += n
		}
		for k, n := range s.Probes {
			merged.Probes[k] += n
		}
		for k, n := range s.Strategies {
			merged.Strategies[k] += n
		}
		if len(merged.Samples) < 3 {
			for _, sm := range s.Samples {
				if len(merged.Samples) < 3 {
					merged.Samples = append(merged.Samples, sm)
				}
			}
		}
		merged.Failures = append(merged.Failures, s.Failures...)
		merged.Infra = append(merged.Infra, s.Infra...)
		if len(merged.FirstSeeds) < 5 {
			merged.FirstSeeds = append(merged.FirstSeeds, s.FirstSeeds...)
		}
	}
	wall := time.Since(start).Seconds()

	// failures: one representative per class, confirmed by replay in a fresh process
	known := loadKnown()
	byClass := map[string][]failure{}
	for _, f := range merged.Failures {
		byClass[f.Class] = append(byClass[f.Class], f)
	}
	var classes []string
	for c := range byClass {
		classes = append(classes, c)
	}
	sort.Strings(classes)
	exit := 0
	violations := regressFail
	outLines := regressLines
	if regressFail > 0 {
		exit = 1
	}
	_ = os.MkdirAll(filepath.Join(verifDir, "replays"), 0o755)
	for _, c := range classes {
		fl := byClass[c]
		var rep *failure
		for i := range fl {
			if fl[i].Replay != "" && fl[i].Repro {
				rep = &fl[i]
				break
			}
		}
		if rep == nil {
			for i := range fl {
				if fl[i].Replay != "" {
					rep = &fl[i]
					break
				}
			}
		}
		if rep == nil {
			outLines = append(outLines, fmt.Sprintf("INFRASTRUCTURE-ERROR class %s failed %d times but no replay file was written", c, len(fl)))
			if exit == 0 {
				exit = 2
			}
			continue
		}
		dst := filepath.Join(verifDir, "replays", filepath.Base(rep.Replay))
		copyFile(rep.Replay, dst)
		copyFile(strings.TrimSuffix(rep.Replay, ".json")+".orig.json", strings.TrimSuffix(dst, ".json")+".orig.json")
		ok := rep.Repro && doReplay(id, bin, dst, false) == 1
		if !ok && pc.Race {
			// the race detector keeps a bounded, randomly evicted access history per memory word:
			// whether it sees a given race in a given execution is not deterministic although the
			// schedule is. Replay again, then try the other recorded runs of this class.
			for try := 0; try < 3 && !ok; try++ {
				ok = doReplay(id, bin, dst, false) == 1
			}
			for i := 0; i < len(fl) && i < 6 && !ok; i++ {
				if fl[i].Replay == "" || fl[i].Replay == rep.Replay {
					continue
				}
				alt := filepath.Join(verifDir, "replays", filepath.Base(fl[i].Replay))
				copyFile(fl[i].Replay, alt)
				for try := 0; try < 2 && !ok; try++ {
					if doReplay(id, bin, alt, false) == 1 {
						ok, dst, rep = true, alt, &fl[i]
					}
				}
			}
		}
		if !ok {
			outLines = append(outLines, fmt.Sprintf("INFRASTRUCTURE-ERROR non-reproducible failure class=%s seed=%d replay=%s (%d occurrences)", c, rep.RunSeed, dst, len(fl)))
			if exit == 0 {
				exit = 2
			}
			continue
		}
		if kf := known.match(id, c); kf != nil {
			outLines = append(outLines, fmt.Sprintf("KNOWN-FINDING: property=%s %s [class=%s occurrences=%d replay=%s]", id, kf.Description, c, len(fl), dst))
			continue
		}
		violations++
		exit = 1
		outLines = append(outLines, fmt.Sprintf("VIOLATION property=%s replay=%s", id, dst))
		outLines = append(outLines, fmt.Sprintf("  class=%s seed=%d occurrences=%d\n  %s", c, rep.RunSeed, len(fl), indent(head(rep.Detail, 1800))))
	}
	if merged.InfraN > 0 {
		outLines = append(outLines, fmt.Sprintf("INFRASTRUCTURE-ERROR %d runs hit an infrastructure problem, e.g. %v", merged.InfraN, first(merged.Infra, 3)))
		if exit == 0 {
			exit = 2
		}
	}
	if merged.Runs > 0 && merged.StepLimitN*20 > merged.Runs {
		outLines = append(outLines, fmt.Sprintf("INFRASTRUCTURE-ERROR %d of %d runs hit the step limit, e.g. %v", merged.StepLimitN, merged.Runs, first(merged.Infra, 3)))
		if exit == 0 {
			exit = 2
		}
	}
	if !noEvidence {
		if err := writeEvidence(id, pc, tier, seed, &merged, len(keys), wall, buildS, violations, procs, budget, classes, len(regs)); err != nil {
			outLines = append(outLines, "INFRASTRUCTURE-ERROR evidence: "+err.Error())
			if exit == 0 {
				exit = 2
			}
		}
	}
	fmt.Printf("check %s tier=%s seed=%d: runs=%d steps=%d simulated=%s nontrivial=%d distinct=%d steplimit=%d wall=%.1fs (build %.1fs) procs=%d\n",
		id, tier, seed, merged.Runs, merged.Steps, time.Duration(merged.SimNanos), merged.NonTrivial, len(keys), merged.StepLimitN, wall, buildS, procs)
	fmt.Printf("  faults=%v probes=%v strategies=%v\n", merged.Faults, merged.Probes, merged.Strategies)
	for _, l := range outLines {
		fmt.Println(l)
	}
	return exit
}

func first(s []string, n int) []string {
	if len(s) > n {
		return s[:n]
	}
	return s
}

func indent(s string) string { return strings.ReplaceAll(s, "\n", "\n  ") }

func head(s string, n int) string {
	if len(s) <= n {
		return s
	}
	return s[:n] + "…"
}

func tail(s string, n int) string {
	if len(s) <= n {
		return s
	}
	return "…" + s[len(s)-n:]
}

func copyFile(src, dst string) {
	b, err := os.ReadFile(src)
	if err == nil {
		_ = os.WriteFile(dst, b, 0o644)
	}
}

// replayCrash replays an in-progress file; returns a class if the process dies with a
// fatal error or panic whose stack contains code of the repository.
func replayCrash(bin, path string) (string, string) {
	rdir, _ := os.MkdirTemp("/dev/shm", "verif-race-")
	defer os.RemoveAll(rdir)
	env := append(goEnv(), "VERIF_MODE=replay", "VERIF_REPLAY="+path, "GOMAXPROCS=2", "GORACE=halt_on_error=0 log_path="+filepath.Join(rdir, "race"))
	cmd := exec.Command(bin, "-test.run", "^TestSim$", "-test.timeout", "10m", "-test.count=1")
	cmd.Env = env
	out, err := cmd.CombinedOutput()
	text := string(out)
	if err == nil || strings.Contains(text, "REPLAY-RESULT ") {
		return "", ""
	}
	if !strings.Contains(text, "fatal error:") && !strings.Contains(text, "panic:") {
		return "", ""
	}
	if strings.Contains(text, "panic: test timed out") {
		// the watchdog of the test binary, not a crash of the code under test: infrastructure (exit 2)
		return "", ""
	}
	fn := "unknown"
	for _, l := range strings.Split(text, "\n") {
		l = strings.TrimSpace(l)
		if strings.HasPrefix(l, "github.com/pion/transport/v3/") && !strings.Contains(l, "/zzverif/") {
			if i := strings.LastIndex(l, "("); i > 0 {
				l = l[:i]
			}
			fn = strings.TrimPrefix(l, "github.com/pion/transport/v3/")
			break
		}
	}
	if fn == "unknown" {
		return "", ""
	}
	i := strings.Index(text, "fatal error:")
	if j := strings.Index(text, "panic:"); j >= 0 && (i < 0 || j < i) {
		i = j
	}
	return "crash:" + fn, text[i:]
}

// doReplay runs a replay file in a fresh process. Returns 1 if the recorded violation
// class was reproduced, 0 if no violation occurred, 2 otherwise.
func doReplay(id, bin, path string, print bool) int {
	rdir, _ := os.MkdirTemp("/dev/shm", "verif-race-")
	defer os.RemoveAll(rdir)
	env := append(goEnv(), "VERIF_MODE=replay", "VERIF_REPLAY="+path, "GOMAXPROCS=2", "GORACE=halt_on_error=0 log_path="+filepath.Join(rdir, "race"))
	cmd := exec.Command(bin, "-test.run", "^TestSim$", "-test.timeout", "10m", "-test.count=1")
	cmd.Env = env
	out, _ := cmd.CombinedOutput()
	sc := bufio.NewScanner(strings.NewReader(string(out)))
	sc.Buffer(make([]byte, 1<<20), 1<<26)
	for sc.Scan() {
		line := sc.Text()
		if strings.HasPrefix(line, "REPLAY-RESULT ") {
			var r struct {
				Class      string `json:"class"`
				Detail     string `json:"detail"`
				Expected   string `json:"expected"`
				Reproduced bool   `json:"reproduced"`
				Infra      string `json:"infra"`
			}
			if err := json.Unmarshal([]byte(strings.TrimPrefix(line, "REPLAY-RESULT ")), &r); err != nil {
				break
			}
			if print {
				if r.Class != "" {
					known := loadKnown()
					if kf := known.match(id, r.Class); kf != nil {
						fmt.Printf("KNOWN-FINDING: property=%s %s [class=%s]\n", id, kf.Description, r.Class)
						fmt.Printf("  %s\n", indent(tail(r.Detail, 3000)))
						return 0
					}
					fmt.Printf("VIOLATION property=%s replay=%s\n  class=%s (recorded class: %s)\n  %s\n", id, path, r.Class, r.Expected, indent(tail(r.Detail, 3000)))
					return 1
				}
				fmt.Printf("replay of %s: no violation (recorded class: %s) infra=%q\n", path, r.Expected, r.Infra)
				return 0
			}
			if r.Reproduced {
				return 1
			}
			if r.Class == "" {
				return 0
			}
			return 2
		}
	}
	if print {
		if class, detail := replayCrash(bin, path); class != "" {
			fmt.Printf("VIOLATION property=%s replay=%s\n  class=%s\n  %s\n", id, path, class, indent(head(detail, 2500)))
			return 1
		}
		fmt.Printf("INFRASTRUCTURE-ERROR replay produced no result:\n%s\n", tail(string(out), 3000))
	}
	return 2
}

func writeEvidence(id string, pc *propCfg, tier string, seed uint64, m *summary, distinct int, wall, buildS float64, violations, procs, budget int, classes []string, regressN int) error {
	samples := make([]interface{}, 0, len(m.Samples))
	for _, s := range m.Samples {
		var v interface{}
		if json.Unmarshal(s, &v) == nil {
			samples = append(samples, v)
		}
	}
	if len(samples) == 0 {
		samples = append(samples, "no scenario sample recorded")
	}
	runsPerHour := 0.0
	exploreWall := wall - buildS
	if exploreWall > 0 {
		runsPerHour = float64(m.Runs) / exploreWall * 3600
	}
	cov := map[string]interface{}{
		"evaluations":            m.Runs,
		"distinct_nontrivial":    distinct,
		"nontrivial_runs":        m.NonTrivial,
		"rule":                   pc.Rule,
		"samples":                samples,
		"controller_steps":       m.Steps,
		"simulated_time_s":       float64(m.SimNanos) / 1e9,
		"simulated_runs_per_hour": runsPerHour,
		"faults_fired":           m.Faults,
		"probes_hit":             m.Probes,
		"strategies":             m.Strategies,
		"stall_faults":           m.Stalls,
		"clock_jumps":            m.TimeJumps,
		"max_workers_in_a_run":   m.MaxWorkers,
		"step_limit_runs":        m.StepLimitN,
		"infrastructure_runs":    m.InfraN,
		"processes":              procs,
		"budget_s_per_process":   budget,
		"first_run_seeds":        m.FirstSeeds,
		"components":             pc.Components,
		"violation_classes_seen": classes,
		"build_s":                buildS,
		"regression_replays":     regressN,
	}
	ev := map[string]interface{}{
		"property_id": id,
		"tier":        tier,
		"seed":        int64(seed & 0x7fffffffffffffff),
		"level":       "exploration",
		"coverage":    cov,
		"assumptions": pc.Assumptions,
		"wall_s":      wall,
		"violations":  violations,
	}
	b, err := json.MarshalIndent(ev, "", " ")
	if err != nil {
		return err
	}
	_ = os.MkdirAll(filepath.Join(verifDir, "evidence"), 0o755)
	return os.WriteFile(filepath.Join(verifDir, "evidence", id+".json"), b, 0o644)
}

// selfTest proves determinism on a sample: the same seeds are run in many separate
// processes at several GOMAXPROCS values with full tracing; every run log must be
// byte-identical.
func selfTest(id string, pc *propCfg, seed uint64, n int) int {
	scratch := fmt.Sprintf("/dev/shm/verif-self-%s-%d", strings.ToLower(id), os.Getpid())
	defer os.RemoveAll(scratch)
	bin, err := build(id, pc, scratch)
	if err != nil {
		return infra("%v", err)
	}
	type job struct {
		gmp, rep int
	}
	var jobs []job
	for _, g := range []int{1, 4, 16} {
		for r := 0; r < 11; r++ {
			jobs = append(jobs, job{g, r})
		}
	}
	logs := make([]string, len(jobs))
	var wg sync.WaitGroup
	sem := make(chan struct{}, 8)
	var mu sync.Mutex
	bad := ""
	for i, j := range jobs {
		wg.Add(1)
		go func(i int, j job) {
			defer wg.Done()
			sem <- struct{}{}
			defer func() { <-sem }()
			lp := filepath.Join(scratch, fmt.Sprintf("runlog-%d-%d", j.gmp, j.rep))
			env := append(goEnv(), "VERIF_MODE=explore", fmt.Sprintf("VERIF_SEED=%d", seed), "VERIF_PROC=0",
				fmt.Sprintf("VERIF_RUNS=%d", n), "VERIF_BUDGET_S=100000", "VERIF_TRACE=1", "VERIF_RUNLOG="+lp,
				"VERIF_OUT="+lp+".sum", "VERIF_MAXFAIL=1000000", fmt.Sprintf("GOMAXPROCS=%d", j.gmp))
			cmd := exec.Command(bin, "-test.run", "^TestSim$", "-test.timeout", "60m", "-test.count=1")
			cmd.Env = env
			out, err := cmd.CombinedOutput()
			if _, serr := os.Stat(lp + ".sum"); err != nil && !(pc.Race && serr == nil) {
				mu.Lock()
				bad = fmt.Sprintf("process failed: %v\n%s", err, tail(string(out), 2000))
				mu.Unlock()
				return
			}
			b, _ := os.ReadFile(lp)
			logs[i] = string(b)
		}(i, j)
	}
	wg.Wait()
	if bad != "" {
		return infra("%s", bad)
	}
	diffs := 0
	for i := 1; i < len(logs); i++ {
		if logs[i] != logs[0] {
			diffs++
			a, b := strings.Split(logs[0], "\n"), strings.Split(logs[i], "\n")
			for k := 0; k < len(a) && k < len(b); k++ {
				if a[k] != b[k] {
					fmt.Printf("DIFF job %d (GOMAXPROCS=%d) line %d:\n  %s\n  %s\n", i, jobs[i].gmp, k, a[k], b[k])
					break
				}
			}
		}
	}
	lines := strings.Count(logs[0], "\n")
	fmt.Printf("selftest %s: %d processes x %d runs (GOMAXPROCS 1/4/16), %d processes differ\n", id, len(jobs), lines, diffs)
	if diffs > 0 || lines == 0 {
		return 2
	}
	return 0
}

// fidelity validates the instrumenter: the repository's own unit tests are compiled
// against the instrumented copy (shims in pass-through mode: no simulation is active) and
// must pass. udp and stdnet are left out (their tests need real sockets, which the
// instrumented udp package no longer opens).
func fidelity() int {
	scratch := fmt.Sprintf("/dev/shm/verif-fidelity-%d", os.Getpid())
	defer os.RemoveAll(scratch)
	repo := filepath.Join(scratch, "repo")
	_ = os.MkdirAll(repo, 0o755)
	if out, err := sh("/", nil, "rsync", "-a", "--exclude", ".git", "--exclude", "examples", repoDir+"/", repo+"/"); err != nil {
		return infra("copy: %v %s", err, out)
	}
	zz := filepath.Join(repo, "zzverif")
	_ = os.MkdirAll(zz, 0o755)
	for _, p := range []string{"simrt", "simnet"} {
		if out, err := sh("/", nil, "rsync", "-a", filepath.Join(verifDir, "sim", p)+"/", filepath.Join(zz, p)+"/"); err != nil {
			return infra("copy %s: %v %s", p, err, out)
		}
	}
	adaptors, _ := filepath.Glob(filepath.Join(verifDir, "sim", "adaptors", "*", "*.go"))
	for _, a := range adaptors {
		b, _ := os.ReadFile(a)
		_ = os.WriteFile(filepath.Join(repo, filepath.Base(filepath.Dir(a)), filepath.Base(a)), b, 0o644)
	}
	if out, err := sh(repo, goEnv(), filepath.Join(verifDir, "bin", "simgen"), append([]string{"-root", repo}, allPkgs...)...); err != nil {
		return infra("simgen: %v\n%s", err, out)
	}
	// TestBufferAlloc counts allocations (the shims allocate) and TestTokenBucketFilter is a 40 s real-time throughput test: both skipped
	pkgs := []string{"./packetio/", "./deadline/", "./dpipe/", "./replaydetector/", "./netctx/", "./connctx/", "./test/", "./vnet/"}
	args := append([]string{"test", "-vet=off", "-count=1", "-skip", "TestTokenBucketFilter|TestBufferAlloc", "-timeout", "20m"}, pkgs...)
	out, err := sh(repo, goEnv(), "go1.26.8", args...)
	fmt.Println(strings.TrimSpace(out))
	if err != nil {
		fmt.Println("FIDELITY: FAILED - the instrumented copy does not pass the repository's own tests")
		return 2
	}
	fmt.Println("FIDELITY: the repository's own tests pass on the instrumented copy (pass-through shims)")
	return 0
}
