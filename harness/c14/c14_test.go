// C14 — configured delays are lower bounds and never reorder, drop, duplicate or crash.
package c14

import (
	"bytes"
	"context"
	"encoding/binary"
	"fmt"
	"net"
	"testing"
	"time"

	"github.com/pion/logging"
	"github.com/pion/transport/v3/vnet"
	"github.com/pion/transport/v3/zzverif/harn"
	"github.com/pion/transport/v3/zzverif/simrt"
)

type arrival struct {
	GapNs int64 `json:"gapNs"`
	Len   int   `json:"len"`
}

type scenario struct {
	Kind      string      `json:"kind"` // delayfilter | router | chain (sender behind a LAN router behind the WAN router, both delaying) | routerfilter (the receiver sits behind a delay filter of Delay2Ns attached to the delaying router)
	Delay2Ns  int64       `json:"delay2Ns"` // chain: the LAN router's minimum delay
	RestartAtNs int64     `json:"restartAtNs"` // router variants: Stop and Start the (WAN) router at this time (0 = never)
	DelayNs   int64       `json:"delayNs"`
	JitterNs  int64       `json:"jitterNs"`
	Producers [][]arrival `json:"producers"`
}

var delays = []int64{0, 0, 1, 1000, 200000, 1000000, 20000000, 50000000}

func gen(r *harn.Rng, tier string) interface{} {
	sc := &scenario{}
	if r.Bool(0.5) {
		sc.Kind = "delayfilter"
	} else if r.Bool(0.3) {
		sc.Kind = "chain"
		sc.Delay2Ns = delays[2+r.Intn(len(delays)-2)]
	} else if r.Bool(0.25) {
		sc.Kind = "routerfilter"
		sc.Delay2Ns = delays[2+r.Intn(len(delays)-2)]
	} else {
		sc.Kind = "router"
		if r.Bool(0.5) {
			sc.JitterNs = int64(r.Pick(1, 1000, 500000, 3000000))
		}
	}
	sc.DelayNs = delays[r.Intn(len(delays))]
	if sc.Kind != "routerfilter" && r.Bool(0.25) {
		// routers: Stop and Start; delay filter: Run is cancelled and started again (what waits
		// for its delay must still be forwarded)
		sc.RestartAtNs = int64(r.Pick(1, 1000, 500000, 1000000, 10000000, 30000000))
	}
	if sc.Kind == "router" && sc.JitterNs == 0 && r.Bool(0.05) {
		sc.JitterNs = -1 // a negative jitter means no jitter
	}
	np := r.Range(1, 3)
	if sc.Kind == "router" || sc.Kind == "chain" || sc.Kind == "routerfilter" {
		np = r.Range(1, 2)
	}
	for p := 0; p < np; p++ {
		var as []arrival
		nArr := r.Range(1, 8)
		if r.Bool(0.15) {
			nArr = r.Range(20, 45) // a backlog longer than a small ring
		}
		flood := false
		if r.Bool(0.05) {
			nArr = r.Pick(65, 129, 130, 200, 300) // a backlog longer than any per-pass batch, then silence
			flood = true
		}
		for i, n := 0, nArr; i < n; i++ {
			var gap int64
			k := r.Intn(6)
			if flood && i > 0 {
				k = 0
			}
			switch k {
			case 0, 1:
				gap = 0 // burst
			case 2:
				gap = sc.DelayNs + int64(r.Pick(-1, 0, 1)) // spacing around the delay
			case 3:
				gap = sc.DelayNs / 2
			case 4:
				gap = int64(r.Pick(1, 100, 10000, 1000000))
			default:
				gap = 2*sc.DelayNs + int64(r.Intn(1000))
			}
			if !flood && r.Bool(0.08) {
				// an arrival that coincides with a periodic housekeeping timer of the filter or router
				// (whole minutes after the last arrival or after the last forward)
				gap = int64(r.Pick(1, 1, 2, 3))*int64(time.Minute) + int64(r.Pick(0, 0, 1))*sc.DelayNs + int64(r.Pick(0, 0, 0, -1, 1))
			}
			if gap < 0 {
				gap = 0
			}
			as = append(as, arrival{GapNs: gap, Len: r.Pick(4, 4, 10, 100, 1200)})
		}
		sc.Producers = append(sc.Producers, as)
	}
	return sc
}

type sent struct {
	id       uint32
	producer int
	payload  []byte
	tBefore  time.Time
	inv, ret uint64
}

type recvd struct {
	id    uint32
	data  []byte
	at    time.Time
	stamp uint64
}

func payload(id uint32, n int) []byte {
	if n < 4 {
		n = 4
	}
	b := harn.Bytes(uint64(id)+31, n)
	binary.BigEndian.PutUint32(b, id)
	return b
}

func run(env *simrt.Env, sci interface{}) {
	sc := sci.(*scenario)
	if sc.Kind == "router" || sc.Kind == "chain" || sc.Kind == "routerfilter" {
		runRouter(env, sc)
		return
	}
	delay := time.Duration(sc.DelayNs)
	var got []recvd
	sink := &vnet.VerifSink{OnChunk: func(_, _ net.Addr, p []byte) {
		r := recvd{data: append([]byte(nil), p...), at: env.Now(), stamp: env.Stamp()}
		if len(p) >= 4 {
			r.id = binary.BigEndian.Uint32(p)
		}
		got = append(got, r)
	}}
	df, err := vnet.NewDelayFilter(sink, delay)
	if err != nil {
		env.Infra("NewDelayFilter: %v", err)
		return
	}
	ctx, cancel := context.WithCancel(context.Background())
	runner := env.Go("run", func() { df.Run(ctx) })
	var restarter *simrt.Handle
	if sc.RestartAtNs > 0 {
		restarter = env.Go("restarter", func() {
			env.Sleep(time.Duration(sc.RestartAtNs))
			cancel()
			env.Join(runner)
			env.Fault("filter-run-restart")
			ctx, cancel = context.WithCancel(context.Background())
			c2 := ctx
			runner = env.Go("run2", func() { df.Run(c2) })
		})
	}
	var sents []*sent
	nextID := uint32(1)
	plans := make([][]*sent, len(sc.Producers))
	for p, as := range sc.Producers {
		for _, a := range as {
			s := &sent{id: nextID, producer: p, payload: payload(nextID, a.Len)}
			nextID++
			plans[p] = append(plans[p], s)
			sents = append(sents, s)
		}
	}
	src := &net.UDPAddr{IP: net.IPv4(10, 0, 0, 1), Port: 1000}
	dst := &net.UDPAddr{IP: net.IPv4(10, 0, 0, 2), Port: 2000}
	var hs []*simrt.Handle
	for p := range sc.Producers {
		p := p
		hs = append(hs, env.Go(fmt.Sprintf("producer%d", p), func() {
			for i, a := range sc.Producers[p] {
				env.Sleep(time.Duration(a.GapNs))
				s := plans[p][i]
				s.tBefore = env.Now()
				s.inv = env.Stamp()
				vnet.VerifInject(df, src, dst, append([]byte(nil), s.payload...))
				s.ret = env.Stamp()
			}
		}))
	}
	// "eventually": the filter is running; give it far more simulated time than any
	// configured delay (its idle timer period is a minute)
	env.Join(hs...)
	// no quiet period can be demanded (the idle timer keeps firing) and stall faults eat
	// simulated time, so "eventually" is: two hours pass without a single further forward
	if restarter != nil {
		env.Join(restarter)
	}
	for {
		n := len(got)
		env.Idle(2 * time.Hour)
		if len(got) == n || env.Failed() {
			break
		}
	}
	if env.Failed() {
		return
	}
	if !checkDelivery(env, sc, sents, got, delay, "the delay filter") {
		return
	}
	cancel()
	env.Join(runner)
}

// checkDelivery: every datagram exactly once, unmodified, in arrival order, never
// sooner than the delay after it was handed in.
func checkDelivery(env *simrt.Env, sc *scenario, sents []*sent, got []recvd, delay time.Duration, what string) bool {
	byID := map[uint32]*sent{}
	for _, s := range sents {
		byID[s.id] = s
	}
	seen := map[uint32]int{}
	pos := map[uint32]int{}
	for k, g := range got {
		s := byID[g.id]
		if s == nil {
			env.Fail("C14/invented-datagram", "%s forwarded a datagram (%d bytes, id %d) that was never handed in", what, len(g.data), g.id)
			return false
		}
		seen[g.id]++
		if seen[g.id] > 1 {
			env.Fail("C14/duplicated", "%s forwarded datagram %d twice", what, g.id)
			return false
		}
		pos[g.id] = k
		if !bytes.Equal(g.data, s.payload) {
			env.Fail("C14/modified", "%s forwarded datagram %d with different bytes", what, g.id)
			return false
		}
		if d := g.at.Sub(s.tBefore); d < delay {
			env.Fail("C14/forwarded-early", "%s forwarded datagram %d only %v after it was handed in; configured delay %v", what, g.id, d, delay)
			return false
		}
	}
	for _, s := range sents {
		if s.ret == 0 {
			env.Fail("C14/producer-stuck", "handing datagram %d to %s never returned", s.id, what)
			return false
		}
		if seen[s.id] == 0 {
			env.Fail("C14/never-forwarded", "%s never forwarded datagram %d (%d of %d forwarded) although it kept running until nothing happened any more (routers: an hour of silence; delay filter: two hours without a forward)", what, s.id, len(got), len(sents))
			return false
		}
	}
	for _, a := range sents {
		for _, b := range sents {
			if a == b {
				continue
			}
			before := (a.producer == b.producer && a.id < b.id) || (a.ret < b.inv)
			if before && pos[a.id] > pos[b.id] {
				env.Fail("C14/reordered", "%s forwarded datagram %d before datagram %d although %d arrived first", what, b.id, a.id, a.id)
				return false
			}
		}
	}
	if delay == 0 {
		env.Probe("zero-delay")
	}
	return true
}

func runRouter(env *simrt.Env, sc *scenario) {
	delay := time.Duration(sc.DelayNs)
	lf := logging.NewDefaultLoggerFactory()
	lf.DefaultLogLevel = logging.LogLevelDisabled
	wan, err := vnet.NewRouter(&vnet.RouterConfig{CIDR: "10.0.0.0/24", MinDelay: delay, MaxJitter: time.Duration(sc.JitterNs), LoggerFactory: lf})
	if err != nil {
		env.Infra("NewRouter: %v", err)
		return
	}
	mk := func(ip string) *vnet.Net {
		n, err := vnet.NewNet(&vnet.NetConfig{StaticIPs: []string{ip}})
		if err != nil {
			env.Infra("NewNet: %v", err)
			return nil
		}
		if err := wan.AddNet(n); err != nil {
			env.Infra("AddNet: %v", err)
			return nil
		}
		return n
	}
	var recvNet *vnet.Net
	var dfRunner *simrt.Handle
	var dfCancel context.CancelFunc
	if sc.Kind == "routerfilter" {
		// the receiving host is attached through a delay filter: the filter's delay counts from
		// the moment the router hands the datagram over, i.e. on top of the router's own delay
		n, err := vnet.NewNet(&vnet.NetConfig{StaticIPs: []string{"10.0.0.100"}})
		if err != nil {
			env.Infra("NewNet: %v", err)
			return
		}
		df, err := vnet.NewDelayFilter(n, time.Duration(sc.Delay2Ns))
		if err != nil {
			env.Infra("NewDelayFilter: %v", err)
			return
		}
		if err := wan.AddNet(df); err != nil {
			env.Infra("AddNet(filter): %v", err)
			return
		}
		var ctx context.Context
		ctx, dfCancel = context.WithCancel(context.Background())
		dfRunner = env.Go("filter-run", func() { df.Run(ctx) })
		recvNet = n
		delay += time.Duration(sc.Delay2Ns)
	} else {
		recvNet = mk("10.0.0.100")
	}
	if recvNet == nil {
		return
	}
	rc, err := recvNet.ListenUDP("udp", &net.UDPAddr{IP: net.ParseIP("10.0.0.100"), Port: 4000})
	if err != nil {
		env.Infra("ListenUDP: %v", err)
		return
	}
	sendRouter, sendBase := wan, "10.0.0"
	if sc.Kind == "chain" {
		lan, err := vnet.NewRouter(&vnet.RouterConfig{CIDR: "192.168.0.0/24", StaticIPs: []string{"10.0.0.200"}, MinDelay: time.Duration(sc.Delay2Ns), LoggerFactory: lf})
		if err != nil {
			env.Infra("NewRouter lan: %v", err)
			return
		}
		if err := wan.AddRouter(lan); err != nil {
			env.Infra("AddRouter: %v", err)
			return
		}
		sendRouter, sendBase = lan, "192.168.0"
		delay += time.Duration(sc.Delay2Ns) // each router adds at least its own minimum delay
	}
	if err := wan.Start(); err != nil {
		env.Infra("Start: %v", err)
		return
	}
	var got []recvd
	reader := env.Go("reader", func() {
		buf := make([]byte, 2000)
		for {
			n, _, err := rc.ReadFrom(buf)
			if err != nil {
				return
			}
			r := recvd{data: append([]byte(nil), buf[:n]...), at: env.Now(), stamp: env.Stamp()}
			if n >= 4 {
				r.id = binary.BigEndian.Uint32(buf)
			}
			got = append(got, r)
		}
	})
	var sents []*sent
	nextID := uint32(1)
	plans := make([][]*sent, len(sc.Producers))
	for p, as := range sc.Producers {
		for _, a := range as {
			s := &sent{id: nextID, producer: p, payload: payload(nextID, a.Len)}
			nextID++
			plans[p] = append(plans[p], s)
			sents = append(sents, s)
		}
	}
	var hs []*simrt.Handle
	for p := range sc.Producers {
		p := p
		sip := fmt.Sprintf("%s.%d", sendBase, 10+p)
		n, nerr := vnet.NewNet(&vnet.NetConfig{StaticIPs: []string{sip}})
		if nerr != nil {
			env.Infra("NewNet: %v", nerr)
			return
		}
		if err := sendRouter.AddNet(n); err != nil {
			env.Infra("AddNet: %v", err)
			return
		}
		conn, err := n.ListenUDP("udp", &net.UDPAddr{IP: net.ParseIP(sip), Port: 5000})
		if err != nil {
			env.Infra("ListenUDP: %v", err)
			return
		}
		hs = append(hs, env.Go(fmt.Sprintf("sender%d", p), func() {
			for i, a := range sc.Producers[p] {
				env.Sleep(time.Duration(a.GapNs))
				s := plans[p][i]
				s.tBefore = env.Now()
				s.inv = env.Stamp()
				cp := append([]byte(nil), s.payload...)
				if _, err := conn.WriteTo(cp, &net.UDPAddr{IP: net.ParseIP("10.0.0.100"), Port: 4000}); err != nil {
					env.Fail("C14/write-failed", "WriteTo: %v", err)
					return
				}
				for j := range cp {
					cp[j] = 0xEE
				}
				s.ret = env.Stamp()
			}
			_ = conn.Close()
		}))
	}
	var stopInv, startRet uint64
	if sc.RestartAtNs > 0 {
		hs = append(hs, env.Go("restarter", func() {
			env.Sleep(time.Duration(sc.RestartAtNs))
			stopInv = env.Stamp()
			if err := wan.Stop(); err != nil {
				return
			}
			env.Fault("router-restart")
			_ = wan.Start()
			startRet = env.Stamp()
		}))
	}
	env.Join(hs...)
	// quiet for an hour: a router that was stalled inside a pass sleeps for as long as the pass
	// took before it looks at its queue again, and stall faults (up to 40 s each) add up
	if sc.Kind == "routerfilter" {
		for { // the filter's idle timer never lets the system go quiet
			n := len(got)
			env.Idle(2 * time.Hour)
			if len(got) == n || env.Failed() {
				break
			}
		}
	} else {
		env.QuiesceWithin(time.Hour)
	}
	if env.Failed() {
		return
	}
	if stopInv != 0 {
		// a datagram handed in while the router was being restarted may be refused (routers
		// accept chunks only while started): only those handed in entirely before the Stop or
		// after the Start are required to arrive. Queued datagrams survive the restart.
		var keep []*sent
		for _, s := range sents {
			if s.ret != 0 && (s.ret < stopInv || s.inv > startRet) {
				keep = append(keep, s)
			}
		}
		gotKeep := got[:0:0]
		for _, g := range got {
			for _, s := range keep {
				if s.id == g.id {
					gotKeep = append(gotKeep, g)
				}
			}
		}
		if sc.Kind == "chain" {
			keep, gotKeep = nil, nil // the LAN router is restarted with its parent: flight times through two routers are not tracked
		}
		sents, got = keep, gotKeep
	}
	// order between senders is decided inside the router: only per-sender order is checked
	for _, s := range sents {
		if s.ret != 0 {
			s.inv, s.ret = 1<<62, 1<<62 // disable the cross-producer clause
		}
	}
	if !checkDelivery(env, sc, sents, got, delay, "the router") {
		return
	}
	_ = wan.Stop()
	_ = rc.Close()
	env.Join(reader)
	if dfCancel != nil {
		dfCancel()
		env.Join(dfRunner)
	}
}

func shrinkSc(sci interface{}) []interface{} {
	sc := sci.(*scenario)
	var out []interface{}
	for p := range sc.Producers {
		if len(sc.Producers) > 1 {
			c := *sc
			c.Producers = append(append([][]arrival(nil), sc.Producers[:p]...), sc.Producers[p+1:]...)
			out = append(out, &c)
		}
		for i := range sc.Producers[p] {
			if len(sc.Producers[p]) > 1 {
				c := *sc
				c.Producers = append([][]arrival(nil), sc.Producers...)
				c.Producers[p] = append(append([]arrival(nil), sc.Producers[p][:i]...), sc.Producers[p][i+1:]...)
				out = append(out, &c)
			}
			if sc.Producers[p][i].Len > 4 {
				c := *sc
				c.Producers = append([][]arrival(nil), sc.Producers...)
				c.Producers[p] = append([]arrival(nil), sc.Producers[p]...)
				c.Producers[p][i].Len = 4
				out = append(out, &c)
			}
			if sc.Producers[p][i].GapNs > 0 {
				c := *sc
				c.Producers = append([][]arrival(nil), sc.Producers...)
				c.Producers[p] = append([]arrival(nil), sc.Producers[p]...)
				c.Producers[p][i].GapNs = 0
				out = append(out, &c)
			}
		}
	}
	if sc.JitterNs > 0 {
		c := *sc
		c.JitterNs = 0
		out = append(out, &c)
	}
	return out
}

func TestSim(t *testing.T) {
	harn.Main(t, &harn.Spec{
		ID: "C14", Gen: gen, New: func() interface{} { return &scenario{} }, Run: run, Shrink: shrinkSc,
	})
}
