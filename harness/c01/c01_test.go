// C01 — vnet delivers each datagram at most once, intact, in order, to its socket only.
//
// Real routers, NATs, hosts and sockets in generated topologies (root router, LAN routers
// nested up to depth 3, every NAT mode and mapping/filtering combination, hosts with
// static / automatic / several IPs, specific / wildcard / connected sockets). Phase 1:
// concurrent senders under the controller. Phase 2: the driver sends replies to observed
// (NAT-translated) sources and unsolicited datagrams to them, one at a time. Oracle: a
// reference routing model (routing walk + composed NAT chain identity and permissions).
package c01

import (
	"bytes"
	"encoding/binary"
	"errors"
	"fmt"
	"io"
	"net"
	"sort"
	"strings"
	"testing"
	"time"

	"github.com/pion/logging"
	"github.com/pion/transport/v3/vnet"
	"github.com/pion/transport/v3/zzverif/harn"
	"github.com/pion/transport/v3/zzverif/simrt"
)

// ---------------- scenario

type routerSpec struct {
	Parent    int   `json:"parent"` // -1 for the root
	Mapping   int   `json:"mapping"`
	Filtering int   `json:"filtering"`
	OneToOne  bool  `json:"oneToOne"`
	MinDelayNs int64 `json:"minDelayNs"`
	JitterNs  int64 `json:"jitterNs"`
	QueueSize int   `json:"queueSize"`
	HairpinFlag bool `json:"hairpinFlag,omitempty"` // NATType.Hairpinning is set (documented as not implemented: datagrams to the NAT's own external addresses keep travelling through the parent)
	DropOdd   bool  `json:"dropOdd"` // chunk filter dropping payloads with an odd tag
}

type sockSpec struct {
	IPIdx   int  `json:"ipIdx"`   // which host IP; -1 = wildcard
	Connect int  `json:"connect"` // >=0: Dial-connected to socket #Connect (must be upward)
	RBuf    int  `json:"rbuf,omitempty"` // the reader's slice length (0: 2000): longer datagrams come back cut together with a short-buffer error
}

type hostSpec struct {
	Router int        `json:"router"`
	NIPs   int        `json:"nIPs"` // 0 = one automatically assigned address
	Legacy bool       `json:"legacy,omitempty"` // the last static address is given in the deprecated NetConfig.StaticIP field (next to StaticIPs)
	Socks  []sockSpec `json:"socks"`
}

type sendSpec struct {
	From  int    `json:"from"` // global socket index
	Kind  string `json:"kind"` // sock | unbound | unroutable | loopback | sibling
	To    int    `json:"to"`   // socket index for kind sock / loopback
	Len   int    `json:"len"`
	GapNs int64  `json:"gapNs"`
	V4    bool   `json:"v4,omitempty"` // hand the destination IP to WriteTo in its 4-byte form
}

type phase2Spec struct {
	Kind string `json:"kind"` // reply | unsolicited | hairpin
	Obs  int    `json:"obs"`  // which phase-1 observation (mod)
	Alt  int    `json:"alt"`  // unsolicited: which other socket on the observer's network (mod)
}

type faultSpec struct {
	Kind    string `json:"kind"` // stopstart
	Router  int    `json:"router"`
	AtNs    int64  `json:"atNs"`
	ForNs   int64  `json:"forNs"`
}

// rebindSpec: socket #Sock is closed while traffic flows and (optionally) a new socket is
// bound to the same address afterwards.
type rebindSpec struct {
	Sock   int   `json:"sock"`
	AtNs   int64 `json:"atNs"`
	GapNs  int64 `json:"gapNs"`
	Rebind bool  `json:"rebind"`
	Again  bool  `json:"again"` // the old socket is closed a second time after the re-bind (deferred Close after an explicit one)
}

type scenario struct {
	Routers []routerSpec `json:"routers"`
	Hosts   []hostSpec   `json:"hosts"`
	Sends   []sendSpec   `json:"sends"`
	Phase2  []phase2Spec `json:"phase2"`
	Faults  []faultSpec  `json:"faults"`
	// Lazy: nobody reads socket #*Lazy before phase 1 has settled (its receive queue,
	// capacity 1024, fills up)
	Lazy   *int        `json:"lazy,omitempty"`
	// LateHost: after the traffic phase a host is attached to the (running) router of socket
	// #*LateHost, with the address x.y.z.199 that datagrams were sent to in vain before
	LateHost *int      `json:"lateHost,omitempty"`
	Rebind *rebindSpec `json:"rebind,omitempty"`
}

func gen(r *harn.Rng, tier string) interface{} {
	sc := &scenario{}
	sc.Routers = append(sc.Routers, routerSpec{Parent: -1})
	nr := r.Range(1, 4)
	if tier == "thorough" {
		nr = r.Range(1, 7)
	}
	depth := []int{0}
	for i := 0; i < nr; i++ {
		p := r.Intn(len(sc.Routers))
		if depth[p] >= 3 {
			p = 0
		}
		rs := routerSpec{Parent: p, Mapping: r.Intn(3), Filtering: r.Intn(3), OneToOne: r.Bool(0.15), HairpinFlag: r.Bool(0.3)}
		sc.Routers = append(sc.Routers, rs)
		depth = append(depth, depth[p]+1)
	}
	faulty := r.Bool(0.3)
	for i := range sc.Routers {
		if r.Bool(0.3) {
			sc.Routers[i].MinDelayNs = int64(r.Pick(1000, 100000, 2000000))
		}
		if r.Bool(0.15) {
			sc.Routers[i].JitterNs = int64(r.Pick(1000, 500000))
		}
		if faulty && r.Bool(0.3) {
			sc.Routers[i].QueueSize = r.Pick(1, 2, 5)
		}
		if faulty && r.Bool(0.2) {
			sc.Routers[i].DropOdd = true
		}
	}
	// hosts: at least one per router
	for ri := range sc.Routers {
		for k, n := 0, r.Range(1, 2); k < n; k++ {
			h := hostSpec{Router: ri, NIPs: r.Pick(0, 1, 1, 2), Legacy: r.Bool(0.3)}
			if sc.Routers[ri].OneToOne {
				h.NIPs = 1
			}
			for s, ns := 0, r.Range(1, 2); s < ns; s++ {
				ss := sockSpec{IPIdx: 0, Connect: -1, RBuf: r.Pick(0, 0, 0, 0, 16, 64, 200)}
				if h.NIPs == 2 && r.Bool(0.4) {
					ss.IPIdx = 1
				}
				if r.Bool(0.2) && s == 0 {
					ss.IPIdx = -1
				}
				h.Socks = append(h.Socks, ss)
			}
			sc.Hosts = append(sc.Hosts, h)
		}
	}
	// connected sockets: dial an upward socket
	type sref struct{ host, idx int }
	var socks []sref
	for hi, h := range sc.Hosts {
		for si := range h.Socks {
			socks = append(socks, sref{hi, si})
		}
	}
	isUp := func(from, to int) bool { // router "to" is an ancestor-or-self of router "from"
		for x := from; x >= 0; x = sc.Routers[x].Parent {
			if x == to {
				return true
			}
		}
		return false
	}
	for gi, s := range socks {
		if r.Bool(0.15) {
			for try := 0; try < 5; try++ {
				t := r.Intn(len(socks))
				if t != gi && socks[t].host != s.host && isUp(sc.Hosts[s.host].Router, sc.Hosts[socks[t].host].Router) {
					sc.Hosts[s.host].Socks[s.idx].Connect = t
					break
				}
			}
		}
	}
	ns := r.Range(3, 30)
	if tier == "thorough" && r.Bool(0.3) {
		ns = r.Range(30, 120)
	}
	// steady stream through a bounded queue: m datagrams per MinDelay keep about m chunks queued
	// in the root router, below its capacity q (m+2 <= q <= 2m-1): nothing may be dropped
	stream := !faulty && r.Bool(0.06)
	if stream {
		var onRoot []int
		for gi, s := range socks {
			if sc.Hosts[s.host].Router == 0 && sc.Hosts[s.host].Socks[s.idx].Connect < 0 {
				onRoot = append(onRoot, gi)
			}
		}
		if len(onRoot) == 0 {
			stream = false
		} else {
			m := r.Pick(3, 4, 4, 6)
			q := r.Range(m+2, 2*m-1)
			d := int64(r.Pick(1000000, 2000000, 10000000))
			for i := range sc.Routers {
				sc.Routers[i].JitterNs = 0
			}
			sc.Routers[0].QueueSize, sc.Routers[0].MinDelayNs = q, d
			from, to := onRoot[r.Intn(len(onRoot))], onRoot[r.Intn(len(onRoot))]
			for i, n := 0, r.Range(3*q, 6*q); i < n; i++ {
				sc.Sends = append(sc.Sends, sendSpec{From: from, Kind: "sock", To: to, Len: r.Pick(12, 40, 200), GapNs: d / int64(m)})
			}
			ns = r.Range(0, 3)
		}
	}
	for i := 0; i < ns; i++ {
		from := r.Intn(len(socks))
		sp := sendSpec{From: from, Len: r.Pick(0, 1, 4, 12, 13, 100, 1200, 1500), GapNs: int64(r.Pick(0, 0, 0, 1000, 100000, 1000000)), V4: r.Bool(0.3)}
		x := r.Intn(100)
		switch {
		case x < 65:
			sp.Kind = "sock"
			sp.To = r.Intn(len(socks))
			// prefer reachable (upward) targets
			for try := 0; try < 4 && !isUp(sc.Hosts[socks[from].host].Router, sc.Hosts[socks[sp.To].host].Router); try++ {
				sp.To = r.Intn(len(socks))
			}
		case x < 75:
			sp.Kind = "unbound"
			sp.To = r.Intn(len(socks))
		case x < 83:
			sp.Kind = "unroutable"
		case x < 93:
			sp.Kind = "loopback"
			sp.To = r.Intn(len(socks))
		default:
			sp.Kind = "sibling"
			sp.To = r.Intn(len(socks))
		}
		sc.Sends = append(sc.Sends, sp)
	}
	for i, n := 0, r.Range(0, 8); i < n; i++ {
		k := "reply"
		if r.Bool(0.5) {
			k = "unsolicited"
		} else if r.Bool(0.3) {
			k = "hairpin"
		} else if r.Bool(0.3) {
			k = "direct" // a plain datagram between two sockets, judged with the socket table as it is now
		}
		sc.Phase2 = append(sc.Phase2, phase2Spec{Kind: k, Obs: r.Intn(64), Alt: r.Intn(8)})
	}
	floodP := 0.012
	if tier == "thorough" {
		floodP = 0.04
	}
	if !faulty && r.Bool(floodP) {
		// flood towards a socket nobody reads: 1000..1100 datagrams from one or two senders
		to := r.Intn(len(socks))
		sc.Lazy = &to
		total := r.Pick(1000, 1023, 1024, 1025, 1100)
		var srcs []int
		for try := 0; try < 20 && len(srcs) < 2; try++ {
			f := r.Intn(len(socks))
			if f != to && isUp(sc.Hosts[socks[f].host].Router, sc.Hosts[socks[to].host].Router) && sc.Hosts[socks[f].host].Socks[socks[f].idx].Connect < 0 {
				srcs = append(srcs, f)
			}
		}
		if len(srcs) == 0 {
			sc.Lazy = nil
		} else {
			for i := 0; i < total; i++ {
				sc.Sends = append(sc.Sends, sendSpec{From: srcs[i%len(srcs)], Kind: "sock", To: to, Len: r.Pick(12, 12, 12, 40), GapNs: 0})
			}
		}
	} else if r.Bool(0.12) {
		sc.Rebind = &rebindSpec{Sock: r.Intn(len(socks)), AtNs: int64(r.Pick(0, 1000, 100000, 1000000, 3000000)), GapNs: int64(r.Pick(0, 1000, 1000000)), Rebind: r.Bool(0.7), Again: r.Bool(0.4)}
	}
	if r.Bool(0.1) {
		k := r.Intn(len(socks))
		sc.LateHost = &k
	}
	if faulty && r.Bool(0.5) {
		for i, n := 0, r.Range(1, 2); i < n; i++ {
			sc.Faults = append(sc.Faults, faultSpec{Kind: "stopstart", Router: r.Intn(len(sc.Routers)), AtNs: int64(r.Pick(0, 1000, 100000, 1000000)), ForNs: int64(r.Pick(1000, 500000, 3000000))})
		}
	}
	return sc
}

// ---------------- runtime structures

type routerT struct {
	spec   routerSpec
	idx    int
	r      *vnet.Router
	cidr   *net.IPNet
	wanIPs []string // addresses on the parent's network
	pairs  map[string]string // 1:1: local ip -> external ip
	pairsR map[string]string
	depth  int
}

type hostT struct {
	spec hostSpec
	idx  int
	n    *vnet.Net
	ips  []string
}

type sockT struct {
	gi     int
	host   *hostT
	spec   sockSpec
	bindIP string // "0.0.0.0" for wildcard
	port   int
	pc     net.PacketConn
	nc     net.Conn
	remote string // connected: remote address
	inbox  []rcv
	h      *simrt.Handle
	closed bool   // closed by the rebind worker
	succ   *sockT // the socket bound to the same address afterwards
	lazy   bool   // not read before phase 1 has settled
	closeStart, closeEnd, rebound uint64 // stamps of the rebind worker
}

type rcv struct {
	payload []byte
	src     string
	stamp   uint64
	short   bool // the read reported io.ErrShortBuffer
	rbuf    int  // length of the slice read into
}

type sentT struct {
	tag       uint32
	from      *sockT
	seq       int
	dst       string
	dstAddr   *net.UDPAddr
	payload   []byte
	kind      string
	expect    *sockT // nil: nobody may receive it
	uncertain bool   // the model leaves the outcome open
	noLossOK  bool   // loss is acceptable (fault window / bounded queue / dropping filter)
	chain     []*routerT // NATs crossed on the way up (inner to outer)
	call, ret uint64
	phase2    bool
	path      []*routerT // routers whose queue the datagram enters (model); pathAll: any router
	pathAll   bool
	alt       *sockT // a second admissible receiver (socket re-bound to the same address)
	mayOnly   bool   // may be lost, but if it arrives then at expect (or alt) only
	wantSrc   string // expected source as seen by the receiver ("" = not fixed)
}

func quietLF() *logging.DefaultLoggerFactory {
	lf := logging.NewDefaultLoggerFactory()
	lf.DefaultLogLevel = logging.LogLevelDisabled
	return lf
}

func cidrFor(depth, idx int) string {
	if depth == 0 {
		return "1.2.3.0/24"
	}
	return fmt.Sprintf("10.%d.%d.0/24", depth, idx)
}

func part(kind int, a *net.UDPAddr) string {
	switch kind {
	case 1:
		return a.IP.String()
	case 2:
		return a.String()
	}
	return ""
}

type world struct {
	env     *simrt.Env
	sc      *scenario
	routers []*routerT
	hosts   []*hostT
	socks   []*sockT
	sents   []*sentT
	byTag   map[uint32]*sentT
	nextTag uint32
	faultWin [][2]uint64 // stamp windows in which a router on some path was stopped
	lossy   bool // a bounded queue or a dropping filter somewhere
	filterLoss bool // a dropping chunk filter somewhere
}

func (w *world) routerOf(s *sockT) *routerT { return w.routers[s.host.spec.Router] }

// sourceIP mirrors what a host documents: the bound IP, or for wildcard sockets the
// loopback address towards loopback destinations and the first eth0 address otherwise.
func (s *sockT) sourceIP(dst net.IP) string {
	if s.bindIP != "0.0.0.0" {
		return s.bindIP
	}
	if dst.IsLoopback() {
		return "127.0.0.1"
	}
	return s.host.ips[0]
}

// demux: the open socket of host h covering (ip, port); connected sockets surface only
// datagrams from their remote.
func (w *world) demux(h *hostT, ip string, port int, src string) *sockT {
	owns := ip == "127.0.0.1"
	for _, a := range h.ips {
		if a == ip {
			owns = true
		}
	}
	if !owns {
		return nil
	}
	var hit *sockT
	for _, s := range w.socks {
		if s.host != h || s.port != port || s.closed {
			continue
		}
		if s.bindIP == "0.0.0.0" || s.bindIP == ip {
			hit = s
		}
	}
	if hit != nil && hit.remote != "" && hit.remote != src {
		return nil
	}
	return hit
}

// route computes the model's verdict for a datagram from s to dst.
func (w *world) route(st *sentT) {
	s := st.from
	dst := st.dstAddr
	srcIP := s.sourceIP(dst.IP)
	src := fmt.Sprintf("%s:%d", srcIP, s.port)
	if dst.IP.IsLoopback() {
		st.expect = w.demux(s.host, "127.0.0.1", dst.Port, src)
		st.wantSrc = src
		return
	}
	if srcIP == "127.0.0.1" {
		// a loopback-bound source cannot reach the network in a meaningful way
		st.uncertain = true
		st.pathAll = true
		return
	}
	r := w.routerOf(s)
	srcKnown := true
	for {
		st.path = append(st.path, r)
		if r.cidr.Contains(dst.IP) {
			// a host on this network?
			for _, h := range w.hosts {
				if h.spec.Router != r.idx {
					continue
				}
				for _, a := range h.ips {
					if a == dst.IP.String() {
						st.expect = w.demux(h, a, dst.Port, src)
						if srcKnown {
							st.wantSrc = src
						} else if st.expect != nil && st.expect.remote != "" {
							// a connected socket may or may not match a translated source
							st.uncertain = true
						}
						return
					}
				}
			}
			// a child router's WAN address: NAT inbound, judged in phase 2 only
			for _, c := range w.routers {
				if c.spec.Parent == r.idx {
					for _, a := range c.wanIPs {
						if a == dst.IP.String() {
							st.uncertain = true
							st.pathAll = true // continues down into the child router(s)
							return
						}
					}
				}
			}
			return // nobody owns the address: dropped
		}
		if r.spec.Parent < 0 {
			return // the root has no route
		}
		if r.spec.OneToOne {
			ext, ok := r.pairs[srcIP]
			if !ok {
				return // unpaired local address: dropped
			}
			srcIP = ext
			src = fmt.Sprintf("%s:%d", ext, s.port)
		} else {
			src = "?" // translated: learned from observation
			srcKnown = false
			srcIP = r.wanIPs[0]
		}
		st.chain = append(st.chain, r)
		r = w.routers[r.spec.Parent]
	}
}

// chainKey identifies the composed mapping of a datagram: sender socket and, per NAPT
// level, the part of the destination the mapping behaviour depends on.
func chainKey(st *sentT, upto int) string {
	k := fmt.Sprintf("s%d", st.from.gi)
	for i := 0; i < upto && i < len(st.chain); i++ {
		c := st.chain[i]
		if c.spec.OneToOne {
			k += "|1:1"
		} else {
			k += "|" + part(c.spec.Mapping, st.dstAddr)
		}
	}
	return k
}

func (w *world) payload(tag uint32, n int) []byte {
	if n < 12 {
		// short datagrams cannot carry a tag: they are identified by (length, content)
		b := make([]byte, n)
		for i := range b {
			b[i] = byte(tag) + byte(i)*7
		}
		return b
	}
	b := harn.Bytes(uint64(tag)+101, n)
	binary.BigEndian.PutUint32(b, 0xC0DEC0DE)
	binary.BigEndian.PutUint32(b[4:], tag)
	return b
}

func tagOf(p []byte) (uint32, bool) {
	if len(p) >= 12 && binary.BigEndian.Uint32(p) == 0xC0DEC0DE {
		return binary.BigEndian.Uint32(p[4:]), true
	}
	return 0, false
}

func run(env *simrt.Env, sci interface{}) {
	sc := sci.(*scenario)
	w := &world{env: env, sc: sc, byTag: map[uint32]*sentT{}, nextTag: 1}
	// ---- build the topology
	childCount := map[int]int{}
	for i, rs := range sc.Routers {
		rt := &routerT{spec: rs, idx: i, pairs: map[string]string{}, pairsR: map[string]string{}}
		if rs.Parent >= 0 {
			rt.depth = w.routers[rs.Parent].depth + 1
		}
		cidr := cidrFor(rt.depth, i)
		_, rt.cidr, _ = net.ParseCIDR(cidr)
		cfg := &vnet.RouterConfig{CIDR: cidr, LoggerFactory: quietLF(), MinDelay: time.Duration(rs.MinDelayNs), MaxJitter: time.Duration(rs.JitterNs), QueueSize: rs.QueueSize}
		if rs.QueueSize > 0 || rs.DropOdd {
			w.lossy = true
		}
		if rs.DropOdd {
			w.filterLoss = true
		}
		if rs.Parent >= 0 {
			p := w.routers[rs.Parent]
			base := strings.TrimSuffix(p.cidr.IP.String(), ".0")
			childCount[rs.Parent]++
			wan := fmt.Sprintf("%s.%d", base, 200+childCount[rs.Parent])
			nt := &vnet.NATType{MappingBehavior: vnet.EndpointDependencyType(rs.Mapping), FilteringBehavior: vnet.EndpointDependencyType(rs.Filtering), MappingLifeTime: 24 * time.Hour, Hairpinning: rs.HairpinFlag}
			if rs.OneToOne {
				nt.Mode = vnet.NATModeNAT1To1
				// pairs for the hosts of this router: host k gets local .k+1 <-> external 2x0+k
				k := 0
				for _, h := range sc.Hosts {
					if h.Router == i {
						loc := fmt.Sprintf("%s.%d", strings.TrimSuffix(rt.cidr.IP.String(), ".0"), 10+k)
						ext := fmt.Sprintf("%s.%d", base, 100+10*childCount[rs.Parent]+k)
						cfg.StaticIPs = append(cfg.StaticIPs, ext+"/"+loc)
						rt.pairs[loc], rt.pairsR[ext] = ext, loc
						rt.wanIPs = append(rt.wanIPs, ext)
						k++
					}
				}
			} else {
				cfg.StaticIPs = []string{wan}
				rt.wanIPs = []string{wan}
			}
			cfg.NATType = nt
		}
		r, err := vnet.NewRouter(cfg)
		if err != nil {
			env.Infra("NewRouter: %v", err)
			return
		}
		rt.r = r
		if rs.DropOdd {
			r.AddChunkFilter(func(c vnet.Chunk) bool {
				if t, ok := tagOf(c.UserData()); ok && t%2 == 1 {
					simrt.CountFault("chunk-filter-drop")
					return false
				}
				return true
			})
		}
		if rs.Parent >= 0 {
			if err := w.routers[rs.Parent].r.AddRouter(r); err != nil {
				env.Infra("AddRouter: %v", err)
				return
			}
		}
		w.routers = append(w.routers, rt)
	}
	perRouter := map[int]int{}
	for hi, hs := range sc.Hosts {
		rt := w.routers[hs.Router]
		base := strings.TrimSuffix(rt.cidr.IP.String(), ".0")
		var static []string
		k := perRouter[hs.Router]
		perRouter[hs.Router]++
		for j := 0; j < hs.NIPs; j++ {
			static = append(static, fmt.Sprintf("%s.%d", base, 10+k+20*j))
		}
		ncfg := &vnet.NetConfig{StaticIPs: static}
		if hs.Legacy && len(static) > 0 {
			ncfg = &vnet.NetConfig{StaticIPs: static[:len(static)-1], StaticIP: static[len(static)-1]}
		}
		n, err := vnet.NewNet(ncfg)
		if err != nil {
			env.Infra("NewNet: %v", err)
			return
		}
		if err := rt.r.AddNet(n); err != nil {
			env.Infra("AddNet: %v", err)
			return
		}
		h := &hostT{spec: hs, idx: hi, n: n}
		ifc, err := n.InterfaceByName("eth0")
		if err != nil {
			env.Infra("eth0: %v", err)
			return
		}
		as, _ := ifc.Addrs()
		for _, a := range as {
			if v, ok := a.(*net.IPNet); ok {
				h.ips = append(h.ips, v.IP.String())
			}
		}
		if len(h.ips) == 0 {
			env.Infra("host without address")
			return
		}
		// a host owns exactly the static addresses it was configured with (whichever field carried
		// them): datagrams to each of them have a NIC to go to
		if len(static) > 0 {
			want := append([]string(nil), static...)
			have := append([]string(nil), h.ips...)
			sort.Strings(want)
			sort.Strings(have)
			if strings.Join(want, ",") != strings.Join(have, ",") {
				env.Fail("C01/host-lacks-configured-address", "host %d was configured with the static addresses %v (StaticIPs %v, StaticIP %q) and attached without error, but its interface holds %v", hi, static, ncfg.StaticIPs, ncfg.StaticIP, h.ips)
				return
			}
		}
		w.hosts = append(w.hosts, h)
	}
	// sockets (connected ones after all plain ones exist)
	gi := 0
	for _, h := range w.hosts {
		for si, ss := range h.spec.Socks {
			s := &sockT{gi: gi, host: h, spec: ss, port: 4000 + si}
			gi++
			if ss.IPIdx < 0 {
				s.bindIP = "0.0.0.0"
			} else {
				s.bindIP = h.ips[ss.IPIdx%len(h.ips)]
			}
			w.socks = append(w.socks, s)
		}
	}
	for _, s := range w.socks {
		laddr := &net.UDPAddr{IP: net.ParseIP(s.bindIP), Port: s.port}
		if s.spec.Connect >= 0 && s.spec.Connect < len(w.socks) {
			t := w.socks[s.spec.Connect]
			tip := t.bindIP
			if tip == "0.0.0.0" {
				tip = t.host.ips[0] // a wildcard socket answers from the host's first address
			}
			raddr := &net.UDPAddr{IP: net.ParseIP(tip), Port: t.port}
			c, err := s.host.n.DialUDP("udp", laddr, raddr)
			if err != nil {
				env.Infra("DialUDP: %v", err)
				return
			}
			s.pc = c
			s.remote = raddr.String()
		} else {
			c, err := s.host.n.ListenUDP("udp", laddr)
			if err != nil {
				env.Infra("ListenUDP %v: %v", laddr, err)
				return
			}
			s.pc = c
		}
	}
	if err := w.routers[0].r.Start(); err != nil {
		env.Infra("Start: %v", err)
		return
	}
	startReader := func(s *sockT) {
		s.h = env.Go(fmt.Sprintf("reader%d", s.gi), func() {
			size := 2000
			if s.spec.RBuf > 0 {
				size = s.spec.RBuf
			}
			buf := make([]byte, size)
			reads := 0
			for {
				var n int
				var from net.Addr
				var err error
				reads++
				if nc, ok := s.pc.(net.Conn); ok && s.remote != "" && (s.gi+reads)%2 == 0 {
					// connected sockets are read with Read (the source is the peer by construction)
					// and with ReadFrom in turn
					n, err = nc.Read(buf)
					from = nc.RemoteAddr()
				} else {
					n, from, err = s.pc.ReadFrom(buf)
					if ua, ok := from.(*net.UDPAddr); ok && err == nil {
						// the address handed out belongs to the caller, who may do with it what it likes
						from = &net.UDPAddr{IP: ua.IP, Port: ua.Port, Zone: ua.Zone}
						ua.Port = ua.Port%60000 + 1
						ua.Zone = "scribbled"
					}
				}
				short := errors.Is(err, io.ErrShortBuffer)
				if err != nil && !short {
					return
				}
				src := "?"
				if from != nil {
					src = from.String()
				}
				s.inbox = append(s.inbox, rcv{payload: append([]byte(nil), buf[:n]...), src: src, stamp: env.Stamp(), short: short, rbuf: size})
			}
		})
	}
	if sc.Lazy != nil {
		w.socks[*sc.Lazy%len(w.socks)].lazy = true
	}
	for _, s := range w.socks {
		if !s.lazy {
			startReader(s)
		}
	}
	settle := func() {
		// A router that was stalled inside its forwarding loop sleeps for as long as the
		// stall lasted before it looks at its queue again (stall faults are at most 40 s),
		// and several stalls inside one pass add up, so "nothing happens any more" needs a far longer quiet period.
		env.QuiesceWithin(time.Hour)
	}

	// ---- phase 1: concurrent senders
	mkSend := func(from *sockT, dst *net.UDPAddr, kind string, n int) *sentT {
		st := &sentT{tag: w.nextTag, from: from, dst: dst.String(), dstAddr: dst, kind: kind}
		w.nextTag++
		st.payload = w.payload(st.tag, n)
		w.route(st)
		if from.remote != "" && from.remote != dst.String() {
			// WriteTo on a connected socket towards another address: left open
			st.uncertain = true
		}
		w.sents = append(w.sents, st)
		w.byTag[st.tag] = st
		return st
	}
	plan := map[int][]*sentT{}
	gaps := map[*sentT]int64{}
	for _, sp := range sc.Sends {
		from := w.socks[sp.From%len(w.socks)]
		to := w.socks[sp.To%len(w.socks)]
		var dst *net.UDPAddr
		toIP := to.bindIP
		if toIP == "0.0.0.0" {
			toIP = to.host.ips[0]
		}
		switch sp.Kind {
		case "sock":
			dst = &net.UDPAddr{IP: net.ParseIP(toIP), Port: to.port}
		case "unbound":
			dst = &net.UDPAddr{IP: net.ParseIP(toIP), Port: 4999}
		case "unroutable":
			dst = &net.UDPAddr{IP: net.ParseIP("172.31.9.9"), Port: 4000}
		case "loopback":
			// any address of 127.0.0.0/8 stays on the host
			dst = &net.UDPAddr{IP: net.ParseIP([]string{"127.0.0.1", "127.0.0.1", "127.0.0.2", "127.1.2.3"}[(sp.To/2)%4]), Port: 4000 + sp.To%2}
		case "sibling":
			// an address in this router's own subnet that nobody holds
			base := strings.TrimSuffix(w.routerOf(from).cidr.IP.String(), ".0")
			dst = &net.UDPAddr{IP: net.ParseIP(base + ".199"), Port: 4000}
		}
		if sp.V4 {
			if v := dst.IP.To4(); v != nil {
				dst.IP = v
			}
		}
		st := mkSend(from, dst, sp.Kind, sp.Len)
		st.seq = len(plan[from.gi])
		plan[from.gi] = append(plan[from.gi], st)
		gaps[st] = sp.GapNs
	}
	var hs []*simrt.Handle
	var froms []int
	for g := range plan {
		froms = append(froms, g)
	}
	sort.Ints(froms)
	for _, g := range froms {
		g := g
		hs = append(hs, env.Go(fmt.Sprintf("sender%d", g), func() {
			for _, st := range plan[g] {
				env.Sleep(time.Duration(gaps[st]))
				cp := append([]byte(nil), st.payload...)
				st.call = env.Stamp()
				_, err := st.from.pc.WriteTo(cp, st.dstAddr)
				for j := range cp {
					cp[j] = 0xEE // the caller may overwrite its buffer as soon as the write returns
				}
				st.ret = env.Stamp()
				if err != nil {
					st.uncertain = true
				}
			}
		}))
	}
	var faultHs []*simrt.Handle
	if len(sc.Faults) > 0 {
		// one worker applies the faults one after the other: stopping a router whose child is
		// already stopped fails half-way by design of the API, which is not what is studied here
		faultHs = append(faultHs, env.Go("fault", func() {
			for _, f := range sc.Faults {
				env.Sleep(time.Duration(f.AtNs))
				rt := w.routers[f.Router%len(w.routers)]
				w0 := env.Stamp()
				if err := rt.r.Stop(); err != nil {
					continue
				}
				env.Fault("router-stop")
				env.Sleep(time.Duration(f.ForNs))
				if err := rt.r.Start(); err != nil {
					env.Infra("router restart failed: %v", err)
				}
				w.faultWin = append(w.faultWin, [2]uint64{w0, env.Stamp()})
			}
		}))
	}
	var rb *sockT
	if sc.Rebind != nil {
		x := w.socks[sc.Rebind.Sock%len(w.socks)]
		if x.remote == "" && !x.lazy {
			rb = x
			faultHs = append(faultHs, env.Go("rebind", func() {
				env.Sleep(time.Duration(sc.Rebind.AtNs))
				x.closeStart = env.Stamp()
				_ = x.pc.Close()
				x.closeEnd = env.Stamp()
				env.Fault("socket-close")
				if !sc.Rebind.Rebind {
					return
				}
				env.Sleep(time.Duration(sc.Rebind.GapNs))
				c, err := x.host.n.ListenUDP("udp", &net.UDPAddr{IP: net.ParseIP(x.bindIP), Port: x.port})
				if err != nil {
					env.Fail("C01/rebind-refused", "socket %s was closed, binding its address again failed: %v", x.desc(), err)
					return
				}
				n := &sockT{gi: len(w.socks), host: x.host, spec: sockSpec{IPIdx: x.spec.IPIdx, Connect: -1}, bindIP: x.bindIP, port: x.port, pc: c}
				n.rebound = env.Stamp()
				x.succ = n
				startReader(n)
				env.Fault("socket-rebind")
				if sc.Rebind.Again {
					env.Sleep(time.Duration(sc.Rebind.GapNs))
					_ = x.pc.Close()
					env.Fault("socket-close-again")
				}
			}))
		}
	}
	env.Join(hs...)
	env.Join(faultHs...)
	settle()
	if env.Failed() {
		return
	}
	if rb != nil {
		rb.closed = true
		if rb.succ != nil {
			w.socks = append(w.socks, rb.succ)
		}
		// verdicts of the datagrams the model routed to the closed socket
		for _, st := range w.sents {
			if st.expect != rb {
				continue
			}
			n := rb.succ
			switch {
			case st.ret != 0 && n != nil && st.call > n.rebound:
				st.expect = n // written after the new socket existed: it is the open socket now
			case st.ret != 0 && n == nil && st.call > rb.closeEnd:
				st.expect = nil // written after the close returned and nobody re-bound: nobody
			default:
				st.alt, st.mayOnly = n, true // in flight around the close: old, new or nobody
			}
		}
	}
	for _, s := range w.socks {
		if s.lazy {
			startReader(s)
			settle()
		}
	}
	hadStop := len(w.faultWin) > 0
	if !w.check(false, hadStop) {
		return
	}
	if sc.LateHost != nil && !hadStop && !w.lossy {
		from := w.socks[*sc.LateHost%len(w.socks)]
		if !from.closed && from.remote == "" && from.bindIP != "127.0.0.1" {
			rt := w.routerOf(from)
			ip := strings.TrimSuffix(rt.cidr.IP.String(), ".0") + ".199"
			dst := &net.UDPAddr{IP: net.ParseIP(ip), Port: 4000}
			send := func() *sentT {
				st := mkSend(from, dst, "direct", 24)
				st.phase2 = true
				cp := append([]byte(nil), st.payload...)
				st.call = env.Stamp()
				if _, err := from.pc.WriteTo(cp, dst); err != nil {
					st.uncertain = true
				}
				st.ret = env.Stamp()
				settle()
				return st
			}
			send() // nobody holds the address yet: dropped by the router
			n, err := vnet.NewNet(&vnet.NetConfig{StaticIPs: []string{ip}})
			if err != nil {
				env.Infra("NewNet late: %v", err)
				return
			}
			if err := rt.r.AddNet(n); err != nil {
				env.Fail("C01/late-host-refused", "attaching a host with the free address %s to the running router #%d failed: %v", ip, rt.idx, err)
				return
			}
			c, err := n.ListenUDP("udp", dst)
			if err != nil {
				env.Infra("ListenUDP late: %v", err)
				return
			}
			h := &hostT{spec: hostSpec{Router: rt.idx, NIPs: 1}, idx: len(w.hosts), n: n, ips: []string{ip}}
			w.hosts = append(w.hosts, h)
			ls := &sockT{gi: len(w.socks), host: h, spec: sockSpec{Connect: -1}, bindIP: ip, port: 4000, pc: c}
			w.socks = append(w.socks, ls)
			startReader(ls)
			send() // now the address is held: the datagram has to arrive
			env.Probe("late-host")
			if !w.check(false, hadStop) {
				return
			}
		}
	}

	// ---- phase 2: replies and unsolicited datagrams to observed translated sources
	type obsT struct {
		st  *sentT
		at  *sockT
		src string
	}
	var obs []obsT
	for _, s := range w.socks {
		for _, it := range s.inbox {
			if t, ok := tagOf(it.payload); ok {
				if st := w.byTag[t]; st != nil && len(st.chain) > 0 && !st.phase2 {
					obs = append(obs, obsT{st, s, it.src})
				}
			}
		}
	}
	sort.Slice(obs, func(i, j int) bool { return obs[i].st.tag < obs[j].st.tag })
	for _, p := range sc.Phase2 {
		if env.Failed() {
			break
		}
		if p.Kind == "direct" {
			from, to := w.socks[p.Obs%len(w.socks)], w.socks[p.Alt%len(w.socks)]
			if from.closed || to.closed || from.remote != "" || to.bindIP == "0.0.0.0" {
				continue
			}
			st := mkSend(from, &net.UDPAddr{IP: net.ParseIP(to.bindIP), Port: to.port}, "direct", 32)
			st.phase2 = true
			if hadStop || w.lossy {
				st.noLossOK = true
			}
			cp := append([]byte(nil), st.payload...)
			st.call = env.Stamp()
			if _, err := from.pc.WriteTo(cp, st.dstAddr); err != nil {
				st.uncertain = true
			}
			st.ret = env.Stamp()
			settle()
			env.Probe("phase2-direct")
			continue
		}
		if len(obs) == 0 {
			continue
		}
		o := obs[p.Obs%len(obs)]
		x, err := net.ResolveUDPAddr("udp", o.src)
		if err != nil {
			continue
		}
		cur := func(s *sockT) *sockT { // the open socket at s's address now
			if s != nil && s.closed {
				return s.succ
			}
			return s
		}
		sender := cur(o.at)
		if p.Kind == "hairpin" {
			// a socket behind the same NAT as the observed sender (possibly that sender itself)
			// writes to the observed external address: up through the NATs, back down through them
			var cands []*sockT
			for _, s := range w.socks {
				if !s.closed && s.host.spec.Router == o.st.from.host.spec.Router && s.remote == "" && s.bindIP != "127.0.0.1" {
					if rt := w.routerOf(s); rt.spec.OneToOne {
						if _, paired := rt.pairs[s.sourceIP(x.IP)]; !paired {
							continue // a 1:1 NAT drops what comes from an unpaired local address
						}
					}
					cands = append(cands, s)
				}
			}
			if len(cands) == 0 {
				continue
			}
			sender = cands[p.Alt%len(cands)]
		}
		if p.Kind == "unsolicited" {
			// another socket on the observer's network
			var cands []*sockT
			for _, s := range w.socks {
				if !s.closed && s != o.at && s.host.spec.Router == o.at.host.spec.Router && s.remote == "" {
					cands = append(cands, s)
				}
			}
			if len(cands) == 0 {
				continue
			}
			sender = cands[p.Alt%len(cands)]
		}
		if sender == nil || sender.remote != "" {
			continue
		}
		st := &sentT{tag: w.nextTag, from: sender, dst: x.String(), dstAddr: x, kind: p.Kind, phase2: true}
		w.nextTag++
		st.payload = w.payload(st.tag, 64)
		// admission through the chain of the observed datagram, outermost level first
		srcIP := sender.sourceIP(x.IP)
		src := &net.UDPAddr{IP: net.ParseIP(srcIP), Port: sender.port}
		admitted := true
		orig := o.st
		for lvl := len(orig.chain); lvl >= 1; lvl-- {
			c := orig.chain[lvl-1]
			if c.spec.OneToOne {
				continue
			}
			// the NAT knows the internal endpoint by its address: a socket re-bound to the address of a
			// closed one continues its mappings, and what it sends adds permissions to them
			root := func(s *sockT) *sockT {
				for again := true; again; {
					again = false
					for _, p := range w.socks {
						if p.succ == s && p != s {
							s, again = p, true
							break
						}
					}
				}
				return s
			}
			keyOf := func(st *sentT) string {
				k := chainKey(st, lvl)
				return fmt.Sprintf("s%d", root(st.from).gi) + k[strings.Index(k+"|", "|"):]
			}
			key := keyOf(orig)
			ok := false
			for _, other := range w.sents {
				if (other.phase2 && other.kind != "direct") || root(other.from) != root(orig.from) || len(other.chain) < lvl || other.ret == 0 {
					continue
				}
				if keyOf(other) == key && part(c.spec.Filtering, other.dstAddr) == part(c.spec.Filtering, src) {
					ok = true
				}
			}
			if !ok {
				admitted = false
			}
		}
		st.wantSrc = src.String()
		if p.Kind == "hairpin" {
			// The datagram reaches the outermost NAT from outside with the sender's own translated
			// address as source. Whatever the filters decide, it may surface at the owner of the
			// mapping only; where every NAPT level filters endpoint-independently the rules admit it.
			admitted = true
			st.chain = orig.chain
			st.wantSrc = "?"
			for _, c := range orig.chain {
				if !c.spec.OneToOne && c.spec.Filtering != 0 {
					st.mayOnly = true
				}
			}
			if orig.from.remote != "" {
				st.mayOnly = true
			}
		}
		if admitted {
			st.expect = cur(orig.from)
			if orig.from.remote != "" && orig.from.remote != src.String() && p.Kind != "hairpin" {
				st.expect = nil // connected sockets discard datagrams from other sources
			}
			if st.expect == nil {
				st.mayOnly = false
			}
		}
		if hadStop || w.lossy {
			// NAT state along an interrupted or lossy path is not observable
			st.uncertain = !admitted
			st.noLossOK = true
		}
		w.sents = append(w.sents, st)
		w.byTag[st.tag] = st
		cp := append([]byte(nil), st.payload...)
		if _, err := sender.pc.WriteTo(cp, x); err != nil {
			st.uncertain = true
		}
		st.ret = env.Stamp()
		settle()
		env.Probe("phase2-" + p.Kind)
	}
	if !w.check(true, hadStop) {
		return
	}
	// ---- teardown
	for _, s := range w.socks {
		_ = s.pc.Close()
	}
	_ = w.routers[0].r.Stop()
	for _, s := range w.socks {
		if s.h != nil {
			env.Join(s.h)
		}
	}
}

// check compares every inbox with the model.
func (w *world) check(final, hadStop bool) bool {
	env := w.env
	seen := map[uint32]*sockT{}
	// source observed per composed mapping identity, and mapping per observed source
	srcOfChain := map[string]string{}
	chainOfSrc := map[string]string{}
	lastSeq := map[string]int{}
	for _, s := range w.socks {
		for _, it := range s.inbox {
			t, ok := tagOf(it.payload)
			if !ok {
				// short datagram: must equal some short payload sent towards this socket
				found := false
				for _, st := range w.sents {
					if len(st.payload) < 12 && bytes.Equal(st.payload, it.payload) && (st.expect == s || st.uncertain || (st.alt != nil && st.alt == s)) {
						found = true
					}
				}
				if !found {
					env.Fail("C01/unexpected-datagram", "socket #%d (%s:%d) received a %d-byte datagram from %s that matches nothing sent to it", s.gi, s.bindIP, s.port, len(it.payload), it.src)
					return false
				}
				continue
			}
			st := w.byTag[t]
			if st == nil {
				env.Fail("C01/invented-datagram", "socket #%d received a datagram with unknown tag %d", s.gi, t)
				return false
			}
			if it.short != (len(st.payload) > it.rbuf) {
				env.Fail("C01/short-buffer-error-wrong", "datagram %d (%d bytes, %s -> %s) was read by socket #%d into a %d-byte slice; short-buffer error reported: %v", t, len(st.payload), st.from.desc(), st.dst, s.gi, it.rbuf, it.short)
				return false
			}
			if it.short && bytes.Equal(st.payload[:it.rbuf], it.payload) {
				// the leading bytes of a datagram longer than the reader's slice
			} else if !bytes.Equal(st.payload, it.payload) {
				env.Fail("C01/payload-changed", "datagram %d (%d bytes, %s -> %s) arrived at socket #%d with different bytes (%d bytes)", t, len(st.payload), st.from.desc(), st.dst, s.gi, len(it.payload))
				return false
			}
			if prev := seen[t]; prev != nil {
				env.Fail("C01/delivered-twice", "datagram %d (%s -> %s) was delivered twice (sockets #%d and #%d)", t, st.from.desc(), st.dst, prev.gi, s.gi)
				return false
			}
			seen[t] = s
			if !st.uncertain && st.expect != s && (st.alt == nil || st.alt != s) {
				exp := "nobody (the routing and NAT rules do not admit it)"
				if st.expect != nil {
					exp = "socket " + st.expect.desc()
				}
				env.Fail("C01/wrong-socket", "datagram %d (%s, %s -> %s) was received by socket %s; the model routes it to %s", t, st.kind, st.from.desc(), st.dst, s.desc(), exp)
				return false
			}
			// source
			if !st.uncertain {
				if st.wantSrc != "" && st.wantSrc != "?" && it.src != st.wantSrc {
					env.Fail("C01/wrong-source", "datagram %d (%s -> %s) shows source %s at the receiver, want %s", t, st.from.desc(), st.dst, it.src, st.wantSrc)
					return false
				}
				if len(st.chain) > 0 && st.kind == "hairpin" {
					outer := st.chain[len(st.chain)-1]
					ua, err := net.ResolveUDPAddr("udp", it.src)
					okIP := false
					if err == nil {
						for _, a := range outer.wanIPs {
							if a == ua.IP.String() {
								okIP = true
							}
						}
					}
					if !okIP || ua.Port < 1 || ua.Port > 65535 {
						env.Fail("C01/wrong-source", "hairpinned datagram %d (%s -> %s) crossed NAT router #%d outbound; the receiver saw source %q, want an address of that router %v", t, st.from.desc(), st.dst, outer.idx, it.src, outer.wanIPs)
						return false
					}
				}
				if len(st.chain) > 0 && !st.phase2 {
					outer := st.chain[len(st.chain)-1]
					ua, err := net.ResolveUDPAddr("udp", it.src)
					okIP := false
					if err == nil {
						for _, a := range outer.wanIPs {
							if a == ua.IP.String() {
								okIP = true
							}
						}
					}
					if !okIP || ua.Port < 1 || ua.Port > 65535 {
						env.Fail("C01/wrong-source", "datagram %d crossed NAT router #%d; the receiver saw source %q, want an address of that router %v with a valid port", t, outer.idx, it.src, outer.wanIPs)
						return false
					}
					key := chainKey(st, len(st.chain))
					if prev, ok := srcOfChain[key]; ok && prev != it.src {
						env.Fail("C01/source-not-stable", "datagrams of the same sender through the same NAT mappings (%s) show different sources %s and %s", key, prev, it.src)
						return false
					}
					srcOfChain[key] = it.src
					if prev, ok := chainOfSrc[it.src]; ok && prev != key {
						env.Fail("C01/source-shared", "source %s is shown by datagrams of different NAT mappings (%s and %s)", it.src, prev, key)
						return false
					}
					chainOfSrc[it.src] = key
				}
			}
			// order between the same two sockets
			if !st.phase2 {
				k := fmt.Sprintf("%d>%d@%s", st.from.gi, s.gi, st.dst) // same two sockets, same destination address
				if last, ok := lastSeq[k]; ok && st.seq < last {
					env.Fail("C01/reordered", "socket #%d received datagram seq %d of socket #%d after seq %d", s.gi, st.seq, st.from.gi, last)
					return false
				}
				lastSeq[k] = st.seq
			}
		}
	}
	// a socket nobody read during phase 1: its queue (capacity 1024) was never drained, so per
	// sender what arrived is a prefix of what was sent, and nothing is lost below capacity
	for _, s := range w.socks {
		if !s.lazy || w.lossy || hadStop {
			continue
		}
		certain := 0
		got := map[uint32]bool{}
		for _, it := range s.inbox {
			if t, ok := tagOf(it.payload); ok {
				got[t] = true
			}
		}
		missing := map[string]*sentT{}
		others, gotCertain := 0, 0
		for _, st := range w.sents {
			if st.phase2 {
				continue
			}
			if st.uncertain || st.expect != s || st.ret == 0 || len(st.payload) < 12 {
				// datagrams that may occupy a slot of the queue without counting as admitted: open
				// verdicts, short ones, and those a connected socket discards when it reads
				addressed := st.dstAddr.Port == s.port && (st.dstAddr.IP.IsLoopback() && st.from.host == s.host)
				for _, a := range s.host.ips {
					if st.dstAddr.Port == s.port && a == st.dstAddr.IP.String() {
						addressed = true
					}
				}
				if st.uncertain || st.expect == s || addressed {
					others++
				}
				continue
			}
			certain++
			if got[st.tag] {
				gotCertain++
			}
			k := fmt.Sprintf("%d@%s", st.from.gi, st.dst)
			if !got[st.tag] {
				if missing[k] == nil {
					missing[k] = st
				}
			} else if m := missing[k]; m != nil {
				env.Fail("C01/lost", "socket %s was not read while %d datagrams were sent to it: datagram seq %d of socket #%d is missing although the later seq %d arrived (its queue was never drained, so it cannot have been full for the earlier and free for the later one)", s.desc(), certain, m.seq, st.from.gi, st.seq)
				return false
			}
		}
		want := certain
		if want > 1024-others {
			want = 1024 - others
		}
		if gotCertain < want {
			env.Fail("C01/lost", "socket %s was not read while %d admitted datagrams (and at most %d others) were sent to it; only %d of the admitted ones were queued although its receive queue holds 1024", s.desc(), certain, others, gotCertain)
			return false
		}
		if certain > 1024 {
			env.Probe("receive-queue-overflow")
		} else if certain >= 1000 {
			env.Probe("receive-queue-nearly-full")
		}
	}
	recvStamp := map[uint32]uint64{}
	for _, s := range w.socks {
		for _, it := range s.inbox {
			if t, ok := tagOf(it.payload); ok {
				recvStamp[t] = it.stamp
			}
		}
	}
	// no loss (only where the property promises it)
	for _, st := range w.sents {
		if st.uncertain || st.expect == nil || st.ret == 0 || len(st.payload) < 12 {
			continue
		}
		if seen[st.tag] != nil {
			env.Probe("delivered")
			continue
		}
		if st.noLossOK || st.mayOnly || (st.expect.lazy && !st.phase2) {
			continue
		}
		if w.lossy {
			// bounded queues: a datagram may be dropped only by a queue that was full. It is not
			// excused when, for every bounded router on its path, fewer datagrams than the queue
			// holds can have been inside that router when it arrived there.
			if w.filterLoss || hadStop || st.phase2 || len(st.path) == 0 || st.pathAll {
				continue
			}
			excused := false
			for pi, rt := range st.path {
				q := rt.spec.QueueSize
				if q <= 0 {
					continue
				}
				cand := 0
				for _, d := range w.sents {
					if d == st || d.call == 0 {
						continue
					}
					if rs, ok := recvStamp[d.tag]; ok && rs < st.call {
						continue // had left every queue before this one was written
					}
					if pi == 0 && d.call > st.ret && !d.phase2 {
						continue // the first router is entered during the write itself
					}
					on := d.pathAll || d.phase2
					for _, x := range d.path {
						if x == rt {
							on = true
						}
					}
					if on {
						cand++
					}
				}
				if cand >= q {
					excused = true
				}
			}
			if excused {
				continue
			}
			env.Probe("loss-not-excused-by-queue-bound")
			env.Fail("C01/lost", "datagram %d (%s, %s -> %s, %d bytes) was never received by socket %s; the bounded queues on its path (%s) cannot have been full: fewer datagrams than each holds can have been inside when it arrived", st.tag, st.kind, st.from.desc(), st.dst, len(st.payload), st.expect.desc(), pathDesc(st.path))
			return false
		}
		inWin := false
		for range w.faultWin {
			inWin = true // any stop window in the run: flight times are not tracked per hop
		}
		if inWin {
			continue
		}
		env.Fail("C01/lost", "datagram %d (%s, %s -> %s, %d bytes, crossing %d NATs) was never received by socket %s although routers were started, no queue was bounded and no filter configured", st.tag, st.kind, st.from.desc(), st.dst, len(st.payload), len(st.chain), st.expect.desc())
		return false
	}
	return true
}

func pathDesc(p []*routerT) string {
	out := ""
	for _, r := range p {
		out += fmt.Sprintf(" router#%d(queue %d)", r.idx, r.spec.QueueSize)
	}
	return strings.TrimSpace(out)
}

func (s *sockT) desc() string {
	c := ""
	if s.remote != "" {
		c = " connected to " + s.remote
	}
	return fmt.Sprintf("#%d(host %d on router %d, %s:%d%s)", s.gi, s.host.idx, s.host.spec.Router, s.bindIP, s.port, c)
}

func shrinkSc(sci interface{}) []interface{} {
	sc := sci.(*scenario)
	var out []interface{}
	n := len(sc.Sends)
	for chunk := n / 2; chunk >= 1; chunk /= 2 {
		for i := 0; i+chunk <= n; i += chunk {
			c := *sc
			c.Sends = append(append([]sendSpec(nil), sc.Sends[:i]...), sc.Sends[i+chunk:]...)
			out = append(out, &c)
		}
	}
	for i := range sc.Phase2 {
		c := *sc
		c.Phase2 = append(append([]phase2Spec(nil), sc.Phase2[:i]...), sc.Phase2[i+1:]...)
		out = append(out, &c)
	}
	if len(sc.Faults) > 0 {
		c := *sc
		c.Faults = nil
		out = append(out, &c)
	}
	if sc.Rebind != nil {
		c := *sc
		c.Rebind = nil
		out = append(out, &c)
	}
	if sc.Lazy != nil {
		c := *sc
		c.Lazy = nil
		out = append(out, &c)
	}
	for i := range sc.Routers {
		rs := sc.Routers[i]
		if rs.MinDelayNs != 0 || rs.JitterNs != 0 || rs.QueueSize != 0 || rs.DropOdd {
			c := *sc
			c.Routers = append([]routerSpec(nil), sc.Routers...)
			c.Routers[i].MinDelayNs, c.Routers[i].JitterNs, c.Routers[i].QueueSize, c.Routers[i].DropOdd = 0, 0, 0, false
			out = append(out, &c)
		}
	}
	for i, s := range sc.Sends {
		if s.GapNs != 0 {
			c := *sc
			c.Sends = append([]sendSpec(nil), sc.Sends...)
			c.Sends[i].GapNs = 0
			out = append(out, &c)
		}
		if s.Len > 12 {
			c := *sc
			c.Sends = append([]sendSpec(nil), sc.Sends...)
			c.Sends[i].Len = 12
			out = append(out, &c)
		}
	}
	return out
}

func TestSim(t *testing.T) {
	harn.Main(t, &harn.Spec{
		ID: "C01", Gen: gen, New: func() interface{} { return &scenario{} }, Run: run, Shrink: shrinkSc,
		Knobs: func(r *harn.Rng, sci interface{}, cfg *simrt.Config) {
			cfg.MaxSteps = 1500000
		},
	})
}
