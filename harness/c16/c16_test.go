// C16 — loss filter drops by the configured probability and alters nothing else.
//
// The filter's randomness is a seam the simulator owns: math/rand calls are served by
// the run's seeded stream, so every run replays. No interleaving is explored.
package c16

import (
	"fmt"
	"bytes"
	"encoding/binary"
	"math"
	"net"
	"testing"

	"github.com/pion/transport/v3/vnet"
	"github.com/pion/transport/v3/zzverif/harn"
	"github.com/pion/transport/v3/zzverif/simrt"
)

type scenario struct {
	Chance int  `json:"chance"`
	N      int  `json:"n"`
	Len    int  `json:"len"`
	TCP    bool `json:"tcp"` // stream of TCP chunks: tag, flags and string form must survive too
}

func gen(r *harn.Rng, tier string) interface{} {
	sc := &scenario{N: 200000, Len: r.Pick(4, 8, 100, 1200)}
	if tier == "thorough" {
		sc.N = 2000000
	}
	switch r.Intn(10) {
	case 0:
		sc.Chance = r.Pick(-5, 0, 100, 101, 250, 1<<32, 1<<40, 1<<40+50, 1<<63-1, -1<<62)
	case 1:
		sc.Chance = r.Pick(1, 2, 50, 98, 99)
	default:
		sc.Chance = r.Range(0, 100)
	}
	if r.Bool(0.15) {
		sc.TCP = true
		sc.N /= 10
	}
	return sc
}

func runTCP(env *simrt.Env, sc *scenario) {
	type meta struct{ tag, str string }
	var sent []meta
	nextIdx := 0
	forwarded := 0
	problem := ""
	sink := &vnet.VerifMetaSink{OnMeta: func(network, tag, str string, p []byte) {
		if problem != "" {
			return
		}
		// must be one of the chunks handed in, later than the previous one, unchanged
		for nextIdx < len(sent) && (sent[nextIdx].tag != tag || sent[nextIdx].str != str) {
			nextIdx++
		}
		if nextIdx == len(sent) || network != "tcp" {
			problem = fmt.Sprintf("forwarded a TCP chunk (network %q, tag %q, %s) that is not an unmodified, not yet forwarded, in-order member of the stream", network, tag, str)
			return
		}
		if len(p) != sc.Len {
			problem = "payload length changed"
			return
		}
		nextIdx++
		forwarded++
	}}
	f, err := vnet.NewLossFilter(sink, sc.Chance)
	if err != nil {
		env.Infra("NewLossFilter: %v", err)
		return
	}
	src := &net.TCPAddr{IP: net.IPv4(10, 0, 0, 1), Port: 1000}
	dst := &net.TCPAddr{IP: net.IPv4(10, 0, 0, 2), Port: 2000}
	for i := 1; i <= sc.N; i++ {
		// the filter runs synchronously: record the chunk's identity before handing it in
		sent = append(sent, meta{})
		tag, str := vnet.VerifInjectTCPPrepare(src, dst, payload(uint32(i), sc.Len), func(tag, str string) { sent[len(sent)-1] = meta{tag, str} }, f)
		_, _ = tag, str
		if problem != "" {
			env.Fail("C16/modified", "TCP chunk stream through LossFilter(%d): %s (chunk %d)", sc.Chance, problem, i)
			return
		}
	}
	dropped := sc.N - forwarded
	switch {
	case sc.Chance <= 0 && dropped != 0:
		env.Fail("C16/dropped-with-chance-0", "chance %d: %d of %d TCP chunks dropped", sc.Chance, dropped, sc.N)
	case sc.Chance >= 100 && forwarded != 0:
		env.Fail("C16/forwarded-with-chance-100", "chance %d: %d of %d TCP chunks forwarded", sc.Chance, forwarded, sc.N)
	case sc.Chance > 0 && sc.Chance < 100:
		p := float64(sc.Chance) / 100
		mean := float64(sc.N) * p
		sigma := math.Sqrt(float64(sc.N) * p * (1 - p))
		if math.Abs(float64(dropped)-mean) > 6*sigma {
			env.Fail("C16/drop-rate-off", "chance %d: %d of %d TCP chunks dropped, expected %.0f +- %.0f (6 sigma)", sc.Chance, dropped, sc.N, mean, 6*sigma)
			return
		}
		env.Probe("statistical-tcp")
	}
}

func run(env *simrt.Env, sci interface{}) {
	sc := sci.(*scenario)
	if sc.TCP {
		runTCP(env, sc)
		return
	}
	next := uint32(1)
	forwarded := 0
	var problem string
	sink := &vnet.VerifSink{OnChunk: func(_, _ net.Addr, p []byte) {
		if problem != "" {
			return
		}
		if len(p) != sc.Len || len(p) < 4 {
			problem = "C16/modified"
			return
		}
		id := binary.BigEndian.Uint32(p)
		if id < next {
			problem = "C16/reordered-or-duplicated"
			return
		}
		if !bytes.Equal(p, payload(id, sc.Len)) {
			problem = "C16/modified"
			return
		}
		next = id + 1
		forwarded++
	}}
	f, err := vnet.NewLossFilter(sink, sc.Chance)
	if err != nil {
		env.Infra("NewLossFilter: %v", err)
		return
	}
	src := &net.UDPAddr{IP: net.IPv4(10, 0, 0, 1), Port: 1000}
	dst := &net.UDPAddr{IP: net.IPv4(10, 0, 0, 2), Port: 2000}
	for i := 1; i <= sc.N; i++ {
		vnet.VerifInject(f, src, dst, payload(uint32(i), sc.Len))
		if problem != "" {
			env.Fail(problem, "datagram stream through LossFilter(%d): problem at datagram %d", sc.Chance, i)
			return
		}
	}
	dropped := sc.N - forwarded
	switch {
	case sc.Chance <= 0:
		if dropped != 0 {
			env.Fail("C16/dropped-with-chance-0", "chance %d: %d of %d datagrams dropped", sc.Chance, dropped, sc.N)
		}
	case sc.Chance >= 100:
		if forwarded != 0 {
			env.Fail("C16/forwarded-with-chance-100", "chance %d: %d of %d datagrams forwarded", sc.Chance, forwarded, sc.N)
		}
	default:
		p := float64(sc.Chance) / 100
		mean := float64(sc.N) * p
		sigma := math.Sqrt(float64(sc.N) * p * (1 - p))
		if math.Abs(float64(dropped)-mean) > 6*sigma {
			env.Fail("C16/drop-rate-off", "chance %d: %d of %d datagrams dropped, expected %.0f +- %.0f (6 sigma)", sc.Chance, dropped, sc.N, mean, 6*sigma)
			return
		}
		env.Probe("statistical")
	}
}

func payload(id uint32, n int) []byte {
	if n < 4 {
		n = 4
	}
	b := make([]byte, n)
	binary.BigEndian.PutUint32(b, id)
	for i := 4; i < n; i++ {
		b[i] = byte(id) + byte(i)
	}
	return b
}

func nonTrivial(sci interface{}, res *simrt.Result) (bool, uint64) {
	sc := sci.(*scenario)
	return sc.Chance > 0 && sc.Chance < 100, uint64(sc.Chance)<<40 ^ res.SchedHash ^ uint64(res.Steps)
}

func TestSim(t *testing.T) {
	harn.Main(t, &harn.Spec{
		// an implementation may synchronise per datagram (a yield point each): allow many steps
		Knobs: func(r *harn.Rng, sc interface{}, cfg *simrt.Config) { cfg.MaxSteps = 12000000 },
		ID: "C16", Gen: gen, New: func() interface{} { return &scenario{} }, Run: run, Sequential: true,
		NonTrivial: func(sci interface{}, res *simrt.Result) (bool, uint64) {
			sc := sci.(*scenario)
			return sc.Chance > 0 && sc.Chance < 100, uint64(sc.Chance)<<56 ^ res.RandSeed>>8
		},
		Shrink: func(sci interface{}) []interface{} { return nil },
	})
}
