// C06 / C07 — packet buffer: FIFO exactly-once, intact (C06); limits and occupancy exact (C07).
//
// Two run classes: sequential histories against a reference model (one worker), and
// concurrent histories (writers, readers, limit changer, closer as workers under the
// controller) whose recorded invoke/return history is checked for linearizability
// against the same model with porcupine.
package c06

import (
	"bytes"
	"encoding/binary"
	"errors"
	"fmt"
	"io"
	"os"
	"strings"
	"testing"
	"time"

	"github.com/anishathalye/porcupine"
	"github.com/pion/transport/v3/packetio"
	"github.com/pion/transport/v3/zzverif/harn"
	"github.com/pion/transport/v3/zzverif/simrt"
)

var prop = func() string {
	if p := os.Getenv("VERIF_PROP"); p != "" {
		return p
	}
	return "C06"
}()

const fourMiB = 4 * 1024 * 1024

type op struct {
	Kind string `json:"k"` // w r lc ls cnt size close
	N    int    `json:"n"` // length / limit / destination length
}

type client struct {
	Role string `json:"role"`
	Ops  []op   `json:"ops"`
}

type scenario struct {
	Concurrent bool     `json:"concurrent"`
	Ops        []op     `json:"ops,omitempty"`     // sequential
	Clients    []client `json:"clients,omitempty"` // concurrent
}

func ringSizes() []int {
	var out []int
	for s := 2048; s <= 128*1024; s *= 2 {
		out = append(out, s)
	}
	for s := 128 * 1024; s < 5*1024*1024; s = 5 * s / 4 {
		out = append(out, s)
	}
	return out
}

var rings = ringSizes()

func genLen(r *harn.Rng, profile int) int {
	switch profile {
	case 0:
		return r.Range(0, 100)
	case 1:
		return r.Pick(0, 1, 2, 3, 4, 5, 100, 500, 1000, 1021, 1022, 1023, 1024, 1500, 2045, 2046, 2047, 4094, 8190)
	case 2: // around ring sizes (minus header), to split header and payload at every offset
		s := rings[r.Intn(8)]
		return clampLen(s/r.Pick(1, 1, 2, 3, 4) - 2 + r.Range(-4, 4))
	case 3:
		return r.Pick(60000, 65000, 65533, 65534, 65535)
	case 4:
		return r.Pick(65535, 65536, 65537, 70000, 100000)
	default:
		return r.Range(0, 3000)
	}
}

func clampLen(n int) int {
	if n < 0 {
		return 0
	}
	if n > 65535 {
		return 65535
	}
	return n
}

func gen(r *harn.Rng, tier string) interface{} {
	sc := &scenario{}
	if r.Bool(0.45) {
		sc.Concurrent = true
		nw, nr := r.Range(1, 3), r.Range(1, 3)
		budget := 24
		for i := 0; i < nw; i++ {
			c := client{Role: "writer"}
			for j, n := 0, r.Range(1, 4); j < n && budget > 0; j++ {
				c.Ops = append(c.Ops, op{Kind: "w", N: r.Pick(4, 5, 8, 100, 1000, 2040, 2043, 2044, 2045, 2046, 2047, 4090, 4094, 65535)})
				budget--
			}
			sc.Clients = append(sc.Clients, c)
		}
		for i := 0; i < nr; i++ {
			c := client{Role: "reader"}
			for j, n := 0, r.Range(1, 4); j < n && budget > 0; j++ {
				k := "r"
				if r.Bool(0.15) {
					k = []string{"cnt", "size"}[r.Intn(2)]
				}
				c.Ops = append(c.Ops, op{Kind: k, N: r.Pick(4, 6, 64, 4096, 65535)})
				budget--
			}
			sc.Clients = append(sc.Clients, c)
		}
		if r.Bool(0.4) {
			c := client{Role: "limiter"}
			for j, n := 0, r.Range(1, 3); j < n; j++ {
				if r.Bool(0.5) {
					c.Ops = append(c.Ops, op{Kind: "lc", N: r.Pick(0, 1, 2, 3)})
				} else {
					c.Ops = append(c.Ops, op{Kind: "ls", N: r.Pick(0, 6, 12, 110, 2047, 2048, 2049, 4096)})
				}
			}
			sc.Clients = append(sc.Clients, c)
		}
		if r.Bool(0.3) {
			sc.Clients = append(sc.Clients, client{Role: "closer", Ops: []op{{Kind: "close"}}})
		}
		return sc
	}
	if r.Bool(0.12) {
		// growth steps that are not a doubling (clamp to the size limit, or the 5/4 steps above
		// 128 KiB) crossed while the data is wrapped around the ring end
		big := r.Bool(0.3)
		unit := r.Pick(500, 700, 900)
		if big {
			unit = r.Pick(30000, 40000, 60000)
			sc.Ops = append(sc.Ops, op{Kind: "ls", N: r.Pick(0, 0, 200000, 300000)})
		} else {
			sc.Ops = append(sc.Ops, op{Kind: "ls", N: r.Pick(2500, 3000, 5000, 2049, 4100)})
		}
		k := r.Range(2, 5)
		for i := 0; i < k; i++ {
			sc.Ops = append(sc.Ops, op{Kind: "w", N: unit + r.Range(-3, 3)})
		}
		for i := 0; i < k-1; i++ {
			sc.Ops = append(sc.Ops, op{Kind: "r", N: 65535})
		}
		for i, m := 0, r.Range(2, 8); i < m; i++ {
			sc.Ops = append(sc.Ops, op{Kind: "w", N: unit + r.Range(-3, 3)})
			if r.Bool(0.3) {
				sc.Ops = append(sc.Ops, op{Kind: "r", N: 65535})
			}
		}
		for i := 0; i < 6; i++ {
			sc.Ops = append(sc.Ops, op{Kind: "r", N: 65535})
		}
		// reads on an empty buffer are skipped by the executor
		return sc
	}
	if r.Bool(0.04) {
		// occupancy reaches a size limit exactly: m packets of 65534 bytes (65536 with their
		// prefix) under a limit of m*65536 - also for the limit that equals the 4 MiB cap
		m := r.Pick(1, 2, 3, 32, 63, 64, 64)
		pre := r.Intn(3) // the limit is set after this many writes
		for i := 0; i < m; i++ {
			if i == pre || (i == 0 && pre >= m) {
				sc.Ops = append(sc.Ops, op{Kind: "ls", N: m * 65536})
			}
			sc.Ops = append(sc.Ops, op{Kind: "w", N: 65534})
		}
		sc.Ops = append(sc.Ops, op{Kind: "size"}, op{Kind: "w", N: 0}, op{Kind: "w", N: r.Pick(0, 1, 100)}, op{Kind: "cnt"},
			op{Kind: "r", N: 65535}, op{Kind: "w", N: 65534}, op{Kind: "w", N: 0}, op{Kind: "size"})
		for i := 0; i < 3; i++ {
			sc.Ops = append(sc.Ops, op{Kind: "r", N: 65535})
		}
		return sc
	}
	n := r.Range(3, 70)
	if tier == "thorough" && r.Bool(0.3) {
		n = r.Range(70, 400)
	}
	profile := r.Intn(6)
	fill := r.Bool(0.03) // approach the 4 MiB cap
	if fill {
		n = 85 + r.Intn(20)
	}
	writeBias := r.Pick(40, 55, 70, 85)
	outstanding := 0
	for i := 0; i < n; i++ {
		x := r.Intn(100)
		switch {
		case fill && i < 62:
			sc.Ops = append(sc.Ops, op{Kind: "w", N: r.Pick(65535, 65535, 65535, 65534, 60000, 30000)})
		case fill && i == 62 && r.Bool(0.6):
			sc.Ops = append(sc.Ops, op{Kind: "ls", N: r.Pick(fourMiB+100, 5*1024*1024, fourMiB-1, fourMiB, 8*1024*1024)})
		case fill && i > 62 && i < 76:
			sc.Ops = append(sc.Ops, op{Kind: "w", N: r.Pick(65535, 65535, 65000, 30000, 1000)})
		case fill && i == 76 && r.Bool(0.6):
			sc.Ops = append(sc.Ops, op{Kind: "ls", N: r.Pick(0, 0, -1, fourMiB, 100)})
		case x < writeBias:
			p := profile
			if r.Bool(0.2) {
				p = r.Intn(6)
			}
			sc.Ops = append(sc.Ops, op{Kind: "w", N: genLen(r, p)})
			outstanding++
		case x < 92:
			if outstanding == 0 {
				// a read on an empty open buffer would block for ever in a sequential history
				sc.Ops = append(sc.Ops, op{Kind: "cnt"})
				continue
			}
			d := r.Pick(0, 1, 2, 3, 10, 100, 1500, 4096, 65535, 65535, 65535)
			sc.Ops = append(sc.Ops, op{Kind: "r", N: d})
			outstanding--
		case x < 95:
			sc.Ops = append(sc.Ops, op{Kind: "lc", N: r.Pick(0, 0, 1, 2, 3, 5, 100, -1)})
		case x < 98:
			ls := r.Pick(0, 0, 1, 2, 3, 10, 100, 2047, 2048, 2049, 4095, 4096, 4097, 65537, fourMiB+100, -5)
			if r.Bool(0.3) {
				ls = rings[r.Intn(len(rings))] + r.Range(-2, 2)
			}
			sc.Ops = append(sc.Ops, op{Kind: "ls", N: ls})
		case x < 99:
			sc.Ops = append(sc.Ops, op{Kind: "size"})
		default:
			if r.Bool(0.3) {
				sc.Ops = append(sc.Ops, op{Kind: "close"})
			}
		}
	}
	return sc
}

// ---------------------------------------------------------------------------
// reference model

type pkt struct {
	id  uint32
	len int
}

type model struct {
	q          []pkt
	limitCount int
	limitSize  int
	closed     bool
}

func (m *model) size() int {
	s := 0
	for _, p := range m.q {
		s += p.len + 2
	}
	return s
}

type wverdict int

const (
	wAccept wverdict = iota
	wFull
	wTooBig
	wClosed
	wEither // the single value the property leaves open (exactly 4 MiB without a size limit)
)

func (m *model) writeVerdict(n int) wverdict {
	if n >= 0x10000 {
		return wTooBig
	}
	if m.closed {
		return wClosed
	}
	if m.limitCount > 0 && len(m.q) >= m.limitCount {
		return wFull
	}
	newSize := m.size() + 2 + n
	if m.limitSize > 0 {
		if newSize > m.limitSize {
			return wFull
		}
		return wAccept
	}
	switch {
	case newSize > fourMiB:
		return wFull
	case newSize == fourMiB:
		return wEither
	}
	return wAccept
}

func payload(id uint32, n int) []byte {
	b := harn.Bytes(uint64(id)*2654435761+7, n)
	if n >= 4 {
		binary.BigEndian.PutUint32(b, id)
	}
	return b
}

func errKind(err error) string {
	switch {
	case err == nil:
		return "nil"
	case errors.Is(err, packetio.ErrFull):
		return "full"
	case errors.Is(err, io.ErrClosedPipe):
		return "closed"
	case errors.Is(err, io.ErrShortBuffer):
		return "short"
	case errors.Is(err, io.EOF):
		return "eof"
	case strings.Contains(err.Error(), "too big"):
		return "toobig"
	}
	return "other:" + err.Error()
}

func run(env *simrt.Env, sci interface{}) {
	sc := sci.(*scenario)
	if sc.Concurrent {
		runConcurrent(env, sc)
		return
	}
	runSequential(env, sc)
}

func runSequential(env *simrt.Env, sc *scenario) {
	b := packetio.NewBuffer()
	m := &model{}
	c06, c07 := prop == "C06", prop == "C07"
	nextID := uint32(1)
	checkOcc := func(i int, o op) bool {
		if !c07 {
			return true
		}
		if got, want := b.Count(), len(m.q); got != want {
			env.Fail("C07/count-wrong", "after op %d %+v: Count()=%d, %d packets unread", i, o, got, want)
			return false
		}
		if got, want := b.Size(), m.size(); got != want {
			env.Fail("C07/size-wrong", "after op %d %+v: Size()=%d, want %d (sum of lengths + 2 each)", i, o, got, want)
			return false
		}
		return true
	}
	for i, o := range sc.Ops {
		switch o.Kind {
		case "w":
			id := nextID
			nextID++
			p := payload(id, o.N)
			want := m.writeVerdict(o.N)
			sizeBefore := m.size()
			n, err := b.Write(p)
			for j := range p {
				p[j] ^= 0xA5 // the caller reuses its slice
			}
			k := errKind(err)
			switch {
			case want == wTooBig:
				if k == "nil" {
					if c06 {
						env.Fail("C06/oversize-write-accepted", "op %d: Write of %d bytes succeeded", i, o.N)
						return
					}
					m.q = append(m.q, pkt{id, o.N})
				}
			case want == wClosed:
				if k == "nil" {
					if c06 {
						env.Fail("C06/write-after-close-accepted", "op %d: Write after Close succeeded", i)
						return
					}
					m.q = append(m.q, pkt{id, o.N})
				}
			default:
				if k != "nil" && k != "full" {
					env.Fail(prop+"/unexpected-write-error", "op %d: Write(%d bytes) = %v", i, o.N, err)
					return
				}
				if c07 && want != wEither {
					if (k == "full") != (want == wFull) {
						why := fmt.Sprintf("count %d/%d, size %d+%d vs limit %d", len(m.q), m.limitCount, sizeBefore, o.N+2, m.limitSize)
						if k == "full" {
							env.Fail("C07/fitting-packet-refused", "op %d: Write(%d bytes) refused with ErrFull although it fits (%s)", i, o.N, why)
						} else {
							env.Fail("C07/limit-exceeded", "op %d: Write(%d bytes) accepted although it exceeds a limit (%s)", i, o.N, why)
						}
						return
					}
				}
				if k == "nil" {
					if n != o.N {
						env.Fail(prop+"/write-count-wrong", "op %d: Write returned n=%d for %d bytes", i, n, o.N)
						return
					}
					m.q = append(m.q, pkt{id, o.N})
					if want == wFull {
						env.Probe("accepted-over-limit")
					}
					if sizeBefore > 0 {
						for _, rs := range rings {
							if sizeBefore+1 <= rs && sizeBefore+o.N+3 > rs {
								env.Probe("growth-with-data")
							}
						}
					}
				} else {
					env.Probe("errfull")
				}
			}
		case "r":
			if len(m.q) == 0 && !m.closed {
				continue // would block
			}
			dst := make([]byte, o.N+8)
			for j := range dst {
				dst[j] = 0x5C
			}
			n, err := b.Read(dst[:o.N])
			k := errKind(err)
			if len(m.q) == 0 {
				if k != "eof" {
					env.Fail(prop+"/no-eof", "op %d: Read on an empty closed buffer returned n=%d err=%v", i, n, err)
					return
				}
				continue
			}
			head := m.q[0]
			m.q = m.q[1:]
			if c07 {
				break
			}
			wantN, wantK := head.len, "nil"
			if o.N < head.len {
				wantN, wantK = o.N, "short"
				env.Probe("short-read")
			}
			if n != wantN || k != wantK {
				env.Fail("C06/read-result-wrong", "op %d: Read(dst %d) = (%d, %v), want (%d, %s) for packet #%d of %d bytes", i, o.N, n, err, wantN, wantK, head.id, head.len)
				return
			}
			if !bytes.Equal(dst[:n], payload(head.id, head.len)[:n]) {
				env.Fail("C06/read-bytes-wrong", "op %d: Read returned %d bytes that differ from packet #%d (%d bytes) written earlier", i, n, head.id, head.len)
				return
			}
			for _, x := range dst[o.N:] {
				if x != 0x5C {
					env.Fail("C06/read-overrun", "op %d: Read wrote beyond the destination slice", i)
					return
				}
			}
		case "lc":
			b.SetLimitCount(o.N)
			m.limitCount = o.N
		case "ls":
			b.SetLimitSize(o.N)
			m.limitSize = o.N
		case "cnt", "size":
			// occupancy is compared after every operation below
		case "close":
			if err := b.Close(); err != nil {
				env.Fail(prop+"/close-error", "op %d: Close: %v", i, err)
				return
			}
			m.closed = true
		}
		if !checkOcc(i, o) {
			return
		}
		if m.size() >= fourMiB-70000 {
			env.Probe("near-4MiB")
		}
	}
	// drain: everything still buffered comes out in order, then (after Close) EOF
	_ = b.Close()
	m.closed = true
	dst := make([]byte, 65535)
	for len(m.q) > 0 {
		n, err := b.Read(dst)
		head := m.q[0]
		m.q = m.q[1:]
		if c06 {
			if err != nil || n != head.len || !bytes.Equal(dst[:n], payload(head.id, head.len)) {
				env.Fail("C06/drain-mismatch", "draining: Read = (%d, %v), want packet #%d of %d bytes intact", n, err, head.id, head.len)
				return
			}
		} else if err != nil {
			env.Fail("C07/count-wrong", "draining: Read failed with %v although %d packets should be buffered", err, len(m.q)+1)
			return
		}
	}
	if _, err := b.Read(dst); !errors.Is(err, io.EOF) {
		env.Fail(prop+"/no-eof", "Read after the last packet of a closed buffer returned %v", err)
	}
}

// ---------------------------------------------------------------------------
// concurrent runs: record a history, check linearizability after the run

type hin struct {
	Kind string
	N    int
	ID   uint32
}

type hout struct {
	Err string
	N   int
	ID  uint32 // id decoded from the bytes read (0 if n < 4)
	OK  bool   // payload bytes equal the written ones
}

type history struct {
	ops []porcupine.Operation
}

func runConcurrent(env *simrt.Env, sc *scenario) {
	b := packetio.NewBuffer()
	h := &history{}
	nextID := uint32(1)
	type planned struct {
		in hin
	}
	plans := make([][]hin, len(sc.Clients))
	lens := map[uint32]int{}
	for ci, c := range sc.Clients {
		for _, o := range c.Ops {
			in := hin{Kind: o.Kind, N: o.N}
			if o.Kind == "w" {
				if in.N < 4 {
					in.N = 4
				}
				in.ID = nextID
				lens[in.ID] = in.N
				nextID++
			}
			plans[ci] = append(plans[ci], in)
		}
	}
	record := func(client int, in hin, call uint64, out hout, ret uint64) {
		h.ops = append(h.ops, porcupine.Operation{ClientId: client, Input: in, Call: int64(call), Output: out, Return: int64(ret)})
	}
	exec := func(client int, in hin) {
		call := env.Stamp()
		var out hout
		switch in.Kind {
		case "w":
			p := payload(in.ID, in.N)
			n, err := b.Write(p)
			for j := range p {
				p[j] = 0xEE
			}
			out = hout{Err: errKind(err), N: n}
		case "r":
			dst := make([]byte, in.N)
			env.Enter("Read")
			n, err := b.Read(dst)
			env.Leave()
			out = hout{Err: errKind(err), N: n}
			if n >= 4 {
				out.ID = binary.BigEndian.Uint32(dst)
				if l, ok := lens[out.ID]; ok {
					out.OK = bytes.Equal(dst[:n], payload(out.ID, l)[:n])
				}
			}
		case "cnt":
			out = hout{N: b.Count()}
		case "size":
			out = hout{N: b.Size()}
		case "lc":
			b.SetLimitCount(in.N)
		case "ls":
			b.SetLimitSize(in.N)
		case "close":
			out = hout{Err: errKind(b.Close())}
		}
		record(client, in, call, out, env.Stamp())
	}
	var hs []*simrt.Handle
	for ci := range sc.Clients {
		ci := ci
		hs = append(hs, env.Go(fmt.Sprintf("%s%d", sc.Clients[ci].Role, ci), func() {
			for _, in := range plans[ci] {
				exec(ci, in)
			}
		}))
	}
	env.Quiesce()
	// release readers that are still waiting: Close is one more operation of the history
	exec(len(sc.Clients), hin{Kind: "close"})
	env.Quiesce()
	for i, x := range hs {
		if !x.Finished() {
			env.Fail(prop+"/worker-stuck", "client %d still blocked after Close and quiescence", i)
			return
		}
	}
	env.SetData(h)
}

// porcupine model over a string-encoded state: "c<closed>|lc|ls|id:len,id:len,..."
type pstate struct {
	closed     bool
	limitCount int
	limitSize  int
	q          string // "id:len," entries
	cnt        int
	size       int
}

func post(sci interface{}, res *simrt.Result) *simrt.Violation {
	h, ok := res.Data.(*history)
	if !ok || h == nil {
		return nil
	}
	c06 := prop == "C06"
	model := porcupine.Model{
		Init: func() interface{} { return pstate{} },
		Step: func(st, input, output interface{}) (bool, interface{}) {
			s := st.(pstate)
			in := input.(hin)
			out := output.(hout)
			switch in.Kind {
			case "w":
				full := (s.limitCount > 0 && s.cnt >= s.limitCount) ||
					(s.limitSize > 0 && s.size+2+in.N > s.limitSize) || (s.limitSize <= 0 && s.size+2+in.N > fourMiB)
				switch {
				case s.closed:
					return out.Err != "nil", s
				case out.Err == "nil":
					if !c06 && full {
						return false, s
					}
					s.q += fmt.Sprintf("%d:%d,", in.ID, in.N)
					s.cnt++
					s.size += in.N + 2
					return out.N == in.N, s
				case out.Err == "full":
					if !c06 && !full {
						return false, s
					}
					return true, s
				}
				return false, s
			case "r":
				if s.cnt == 0 {
					if s.closed {
						return out.Err == "eof", s
					}
					return false, s // would still be blocked
				}
				i := strings.IndexByte(s.q, ',')
				var id uint32
				var l int
				fmt.Sscanf(s.q[:i], "%d:%d", &id, &l)
				s.q = s.q[i+1:]
				s.cnt--
				s.size -= l + 2
				if !c06 {
					return out.Err == "nil" || out.Err == "short", s
				}
				wantN, wantErr := l, "nil"
				if in.N < l {
					wantN, wantErr = in.N, "short"
				}
				return out.Err == wantErr && out.N == wantN && out.ID == id && out.OK, s
			case "cnt":
				return c06 || out.N == s.cnt, s
			case "size":
				return c06 || out.N == s.size, s
			case "lc":
				s.limitCount = in.N
				return true, s
			case "ls":
				s.limitSize = in.N
				return true, s
			case "close":
				s.closed = true
				return out.Err == "nil", s
			}
			return false, s
		},
		DescribeOperation: func(input, output interface{}) string {
			return fmt.Sprintf("%+v -> %+v", input, output)
		},
	}
	r := porcupine.CheckOperationsTimeout(model, h.ops, 20*time.Second)
	switch r {
	case porcupine.Illegal:
		var sb strings.Builder
		for _, o := range h.ops {
			fmt.Fprintf(&sb, "\n  client %d [%d,%d] %+v -> %+v", o.ClientId, o.Call, o.Return, o.Input, o.Output)
		}
		return &simrt.Violation{Class: prop + "/not-linearizable", Detail: "the recorded history of concurrent calls has no linearization against the FIFO buffer model:" + sb.String()}
	case porcupine.Unknown:
		if res.Probes == nil {
			res.Probes = map[string]int{}
		}
		res.Probes["porcupine-timeout"]++
	}
	return nil
}

func shrinkSc(sci interface{}) []interface{} {
	sc := sci.(*scenario)
	var out []interface{}
	if sc.Concurrent {
		for i := range sc.Clients {
			c := *sc
			c.Clients = append(append([]client(nil), sc.Clients[:i]...), sc.Clients[i+1:]...)
			out = append(out, &c)
			for j := range sc.Clients[i].Ops {
				c := *sc
				c.Clients = append([]client(nil), sc.Clients...)
				cl := sc.Clients[i]
				cl.Ops = append(append([]op(nil), cl.Ops[:j]...), cl.Ops[j+1:]...)
				c.Clients[i] = cl
				out = append(out, &c)
			}
		}
		return out
	}
	n := len(sc.Ops)
	for chunk := n / 2; chunk >= 1; chunk /= 2 {
		for i := 0; i+chunk <= n; i += chunk {
			c := *sc
			c.Ops = append(append([]op(nil), sc.Ops[:i]...), sc.Ops[i+chunk:]...)
			out = append(out, &c)
		}
		if len(out) > 300 {
			break
		}
	}
	for i, o := range sc.Ops {
		if (o.Kind == "w" || o.Kind == "r") && o.N > 8 {
			for _, nn := range []int{o.N / 2, o.N - 1} {
				c := *sc
				c.Ops = append([]op(nil), sc.Ops...)
				c.Ops[i].N = nn
				out = append(out, &c)
			}
		}
	}
	return out
}

func nonTrivial(sci interface{}, res *simrt.Result) (bool, uint64) {
	sc := sci.(*scenario)
	if sc.Concurrent {
		return res.Workers >= 3 && res.Switches >= 1, res.SchedHash
	}
	h := uint64(1469598103934665603)
	w, r := 0, 0
	for _, o := range sc.Ops {
		h = (h ^ uint64(len(o.Kind))<<32 ^ uint64(o.Kind[0])<<24 ^ uint64(uint32(o.N))) * 1099511628211
		if o.Kind == "w" {
			w++
		}
		if o.Kind == "r" {
			r++
		}
	}
	return w >= 2 && r >= 1, h
}

func TestSim(t *testing.T) {
	harn.Main(t, &harn.Spec{
		ID: prop, Gen: gen, New: func() interface{} { return &scenario{} }, Run: run, Post: post,
		Shrink: shrinkSc, NonTrivial: nonTrivial,
	})
}
