// C19 — concurrent use of the thread-safe APIs is free of data races.
//
// The harness is built with -race. Client programs are generated from the operations
// the packages document or test as safe for concurrent use; they run under the
// deterministic controller, whose own synchronisation is invisible to the race detector
// (see simrt/lock_race.go), so the happens-before relation the detector sees is exactly
// the program's. Oracle: a race report whose two accesses are in pion/transport code
// (or one in pion/transport and one in the client program).
package c19

import (
	"context"
	"fmt"
	"net"
	"os"
	"regexp"
	"sort"
	"strings"
	"testing"
	"time"

	"github.com/pion/logging"
	"github.com/pion/transport/v3/deadline"
	"github.com/pion/transport/v3/dpipe"
	"github.com/pion/transport/v3/packetio"
	"github.com/pion/transport/v3/udp"
	"github.com/pion/transport/v3/vnet"
	"github.com/pion/transport/v3/zzverif/harn"
	"github.com/pion/transport/v3/zzverif/simnet"
	"github.com/pion/transport/v3/zzverif/simrt"
)

type scenario struct {
	Program string `json:"program"` // buffer | deadline | dpipe | vnet | build | tbf | udp | delayfilter | filters
	Workers int    `json:"workers"`
	Ops     [][]int `json:"ops"` // per worker: operation codes (meaning depends on the program)
}

var programs = []string{"buffer", "deadline", "dpipe", "vnet", "build", "tbf", "udp", "delayfilter", "filters", "udpwrite"}

func gen(r *harn.Rng, tier string) interface{} {
	sc := &scenario{Program: programs[r.Intn(len(programs))]}
	if p := os.Getenv("VERIF_C19_PROGRAM"); p != "" {
		sc.Program = p
	}
	sc.Workers = r.Range(2, 4)
	for w := 0; w < sc.Workers; w++ {
		var ops []int
		for i, n := 0, r.Range(2, 8); i < n; i++ {
			ops = append(ops, r.Intn(1000))
		}
		sc.Ops = append(sc.Ops, ops)
	}
	return sc
}

func quietLF() *logging.DefaultLoggerFactory {
	lf := logging.NewDefaultLoggerFactory()
	lf.DefaultLogLevel = logging.LogLevelDisabled
	return lf
}

func run(env *simrt.Env, sci interface{}) {
	sc := sci.(*scenario)
	soon := func() time.Time { return env.Now().Add(200 * time.Microsecond) }
	var hs []*simrt.Handle
	spawn := func(f func(w int, ops []int)) {
		for w := 0; w < sc.Workers; w++ {
			w := w
			hs = append(hs, env.Go(fmt.Sprintf("client%d", w), func() { f(w, sc.Ops[w]) }))
		}
	}
	switch sc.Program {
	case "buffer":
		b := packetio.NewBuffer()
		spawn(func(w int, ops []int) {
			buf := make([]byte, 2048)
			for _, o := range ops {
				switch o % 9 {
				case 0, 1, 2:
					_, _ = b.Write(make([]byte, 1+o%1500))
				case 3, 4:
					_ = b.SetReadDeadline(soon())
					_, _ = b.Read(buf)
				case 5:
					_ = b.Count() + b.Size()
				case 6:
					b.SetLimitCount(o % 5)
					b.SetLimitSize(o % 4000)
				case 7:
					_ = b.SetReadDeadline(time.Time{})
				case 8:
					if o%4 == 0 {
						_ = b.Close()
					}
				}
			}
		})
		env.Join(hs...)
		_ = b.Close()
	case "deadline":
		d := deadline.New()
		spawn(func(w int, ops []int) {
			for _, o := range ops {
				switch o % 6 {
				case 0:
					d.Set(env.Now().Add(time.Duration(o%300) * time.Microsecond))
				case 1:
					d.Set(time.Time{})
				case 2:
					d.Set(env.Now().Add(-time.Second))
				case 3:
					select {
					case <-d.Done():
					default:
					}
				case 4:
					_ = d.Err()
					_, _ = d.Deadline()
				case 5:
					env.Sleep(time.Duration(o%300) * time.Microsecond)
				}
			}
		})
		env.Join(hs...)
		d.Set(time.Time{})
	case "dpipe":
		a, b := dpipe.Pipe()
		ends := []net.Conn{a, b}
		spawn(func(w int, ops []int) {
			buf := make([]byte, 256)
			for _, o := range ops {
				c := ends[o%2]
				switch (o / 2) % 6 {
				case 0, 1:
					n := 1 + o%200
					if o%3 == 0 {
						n = 2048 + o%3000 // large datagrams too (buffers of different provenance)
					}
					_, _ = c.Write(make([]byte, n))
				case 2:
					_ = c.SetReadDeadline(soon())
					_, _ = c.Read(buf)
				case 3:
					_ = c.SetDeadline(soon())
				case 4:
					_ = c.SetWriteDeadline(time.Time{})
				case 5:
					if o%5 == 0 {
						_ = c.Close()
					}
				}
			}
		})
		env.Join(hs...)
		_ = a.Close()
		_ = b.Close()
	case "vnet":
		jit := time.Duration(0)
		if len(sc.Ops[0])%2 == 0 {
			jit = 50 * time.Microsecond // both routers draw jitter: their forwarding goroutines run side by side
		}
		wan, err := vnet.NewRouter(&vnet.RouterConfig{CIDR: "10.0.0.0/24", MaxJitter: jit, LoggerFactory: quietLF()})
		if err != nil {
			env.Infra("NewRouter: %v", err)
			return
		}
		// a NAT'd child router with one inside host: outbound translation runs on the child's
		// forwarding goroutine, inbound translation on the parent's
		lan, err := vnet.NewRouter(&vnet.RouterConfig{CIDR: "192.168.0.0/24", StaticIPs: []string{"10.0.0.3"}, MaxJitter: jit, LoggerFactory: quietLF(),
			NATType: &vnet.NATType{MappingBehavior: vnet.EndpointIndependent, FilteringBehavior: vnet.EndpointAddrPortDependent, MappingLifeTime: time.Hour}})
		if err != nil {
			env.Infra("NewRouter lan: %v", err)
			return
		}
		if err := wan.AddRouter(lan); err != nil {
			env.Infra("AddRouter: %v", err)
			return
		}
		inNet, err := vnet.NewNet(&vnet.NetConfig{StaticIPs: []string{"192.168.0.1"}})
		if err != nil {
			env.Infra("NewNet: %v", err)
			return
		}
		if err := lan.AddNet(inNet); err != nil {
			env.Infra("AddNet: %v", err)
			return
		}
		inside, err := inNet.ListenUDP("udp", &net.UDPAddr{IP: net.ParseIP("192.168.0.1"), Port: 4000})
		if err != nil {
			env.Infra("ListenUDP inside: %v", err)
			return
		}
		mk := func(ip string) (*vnet.Net, net.PacketConn) {
			n, err := vnet.NewNet(&vnet.NetConfig{StaticIPs: []string{ip}})
			if err != nil {
				env.Infra("NewNet: %v", err)
				return nil, nil
			}
			if err := wan.AddNet(n); err != nil {
				env.Infra("AddNet: %v", err)
				return nil, nil
			}
			c, err := n.ListenUDP("udp", &net.UDPAddr{IP: net.ParseIP(ip), Port: 4000})
			if err != nil {
				env.Infra("ListenUDP: %v", err)
				return nil, nil
			}
			return n, c
		}
		n1, c1 := mk("10.0.0.1")
		_, c2 := mk("10.0.0.2")
		_, c3 := mk("10.0.0.4")
		if c1 == nil || c2 == nil || c3 == nil {
			return
		}
		// a socket bound to the wildcard address: the source address of what it sends is looked up per datagram
		cW, err := n1.ListenUDP("udp", &net.UDPAddr{Port: 4100})
		if err != nil {
			env.Infra("ListenUDP wildcard: %v", err)
			return
		}
		_ = wan.Start()
		conns := []net.PacketConn{c1, c2}
		// c3 echoes what it receives to the (translated) source: inbound traffic through the NAT
		echo := env.Go("echo", func() {
			buf := make([]byte, 256)
			for {
				n, from, err := c3.ReadFrom(buf)
				if err != nil {
					return
				}
				_, _ = c3.WriteTo(buf[:n], from)
			}
		})
		defer func() { env.Join(echo) }()
		spawn(func(w int, ops []int) {
			buf := make([]byte, 256)
			for _, o := range ops {
				c := conns[o%2]
				peer := &net.UDPAddr{IP: net.ParseIP(fmt.Sprintf("10.0.0.%d", 2-o%2)), Port: 4000}
				if o%5 == 0 {
					// the inside host talks to changing remote ports (new permissions) and to the echo
					_, _ = inside.WriteTo(make([]byte, 1+o%50), &net.UDPAddr{IP: net.ParseIP("10.0.0.4"), Port: 4000})
					_, _ = inside.WriteTo(make([]byte, 1+o%50), &net.UDPAddr{IP: net.ParseIP("10.0.0.1"), Port: 4000 + o%7})
					continue
				}
				switch (o / 2) % 9 {
				case 0, 1, 2:
					_, _ = c.WriteTo(make([]byte, 1+o%100), peer)
					if o%3 == 0 {
						// several writers on the wildcard-bound socket, routed destinations
						_, _ = cW.WriteTo(make([]byte, 1+o%100), &net.UDPAddr{IP: net.ParseIP("10.0.0.2"), Port: 4000})
					}
					if o%4 == 0 {
						// loopback: delivered by the writer's goroutine itself, without the router
						_, _ = c.WriteTo(make([]byte, 1+o%100), &net.UDPAddr{IP: net.IPv4(127, 0, 0, 1), Port: 4000})
					}
				case 3:
					_ = c.SetReadDeadline(soon())
					_, _, _ = c.ReadFrom(buf)
				case 4:
					wan.AddChunkFilter(func(vnet.Chunk) bool { return true })
				case 5:
					// few names: registering a name again (update) while others resolve it
					_ = wan.AddHost(fmt.Sprintf("h%d.example", o%3), fmt.Sprintf("10.0.0.%d", 1+o%2))
				case 6:
					if o%3 == 0 {
						_ = wan.Stop()
						_ = wan.Start()
					}
				case 7:
					if x, err := n1.ListenUDP("udp", &net.UDPAddr{IP: net.ParseIP("10.0.0.1"), Port: 0}); err == nil {
						_ = x.Close()
					}
					if o%4 == 0 {
						// a host joins the running router while it forwards
						if nn, err := vnet.NewNet(&vnet.NetConfig{}); err == nil {
							_ = wan.AddNet(nn)
						}
					}
				case 8:
					_, _ = n1.Interfaces()
					_, _ = n1.ResolveUDPAddr("udp", "10.0.0.2:4000")
					_, _ = n1.ResolveUDPAddr("udp", fmt.Sprintf("h%d.example:4000", o%3))
					_, _ = n1.ResolveIPAddr("ip", fmt.Sprintf("h%d.example", (o+1)%3))
				}
			}
		})
		env.Join(hs...)
		env.Sleep(time.Millisecond) // echoes in flight
		_ = c1.Close()
		_ = c2.Close()
		_ = c3.Close()
		_ = cW.Close()
		_ = inside.Close()
		_ = wan.Stop()
	case "build":
		// independent virtual networks built in parallel; their configurations are cut from one
		// address list (slices with spare capacity over one array), which the builders only read
		addrPool := []string{"10.0.0.101", "10.0.0.102", "10.0.0.103", "10.0.0.104", "10.0.0.105"}
		spawn(func(w int, ops []int) {
			wan, err := vnet.NewRouter(&vnet.RouterConfig{CIDR: "10.0.0.0/24", LoggerFactory: quietLF()})
			if err != nil {
				return
			}
			var conns []net.PacketConn
			for i := 0; i < 1+len(ops)%3; i++ {
				cfg := &vnet.NetConfig{}
				if i == 0 && ops[0]%2 == 0 {
					cfg.StaticIPs = addrPool[w : w+1]
					cfg.StaticIP = fmt.Sprintf("10.0.0.%d", 120+w) // the deprecated single-address field on top
				}
				n, err := vnet.NewNet(cfg)
				if err != nil {
					return
				}
				if err := wan.AddNet(n); err != nil {
					return
				}
				if c, err := n.ListenUDP("udp", &net.UDPAddr{Port: 4000}); err == nil {
					conns = append(conns, c)
				}
			}
			_ = wan.Start()
			if len(conns) > 0 {
				_, _ = conns[0].WriteTo([]byte("x"), &net.UDPAddr{IP: net.ParseIP("10.0.0.1"), Port: 4000})
			}
			env.Sleep(time.Microsecond)
			for _, c := range conns {
				_ = c.Close()
			}
			_ = wan.Stop()
		})
		env.Join(hs...)
	case "tbf":
		sink := &vnet.VerifSink{OnChunk: func(_, _ net.Addr, _ []byte) {}}
		tbf, err := vnet.NewTokenBucketFilter(sink, vnet.TBFRate(1*vnet.MBit), vnet.TBFMaxBurst(8000))
		if err != nil {
			env.Infra("tbf: %v", err)
			return
		}
		src := &net.UDPAddr{IP: net.IPv4(10, 0, 0, 1), Port: 1}
		dst := &net.UDPAddr{IP: net.IPv4(10, 0, 0, 2), Port: 2}
		spawn(func(w int, ops []int) {
			for _, o := range ops {
				switch o % 4 {
				case 0, 1:
					vnet.VerifInject(tbf, src, dst, make([]byte, 1+o%1200))
				case 2:
					tbf.Set(vnet.TBFRate((1 + o%8) * vnet.MBit))
				case 3:
					tbf.Set(vnet.TBFMaxBurst(1000 + o))
					if o%5 == 0 {
						tbf.Set(vnet.TBFQueueSizeInBytes(20000 + o))
					}
				}
				if o%7 == 0 {
					env.Sleep(time.Duration(o%150) * time.Millisecond)
				}
			}
		})
		env.Join(hs...)
		_ = tbf.Close()
	case "filters":
		// independent filter instances (one set per client) used in parallel: they must not
		// share unsynchronised state behind the caller's back
		src := &net.UDPAddr{IP: net.IPv4(10, 0, 0, 1), Port: 1}
		dst := &net.UDPAddr{IP: net.IPv4(10, 0, 0, 2), Port: 2}
		spawn(func(w int, ops []int) {
			sink := &vnet.VerifSink{OnChunk: func(_, _ net.Addr, _ []byte) {}}
			lf, err := vnet.NewLossFilter(sink, 10+len(ops)*7)
			if err != nil {
				return
			}
			tbf, err := vnet.NewTokenBucketFilter(sink, vnet.TBFRate(8*vnet.MBit), vnet.TBFMaxBurst(4000))
			if err != nil {
				return
			}
			for _, o := range ops {
				switch o % 3 {
				case 0, 1:
					vnet.VerifInject(lf, src, dst, make([]byte, 1+o%300))
				default:
					vnet.VerifInject(tbf, src, dst, make([]byte, 1+o%300))
				}
			}
			_ = tbf.Close()
		})
		env.Join(hs...)
	case "delayfilter":
		sink := &vnet.VerifSink{OnChunk: func(_, _ net.Addr, _ []byte) {}}
		df, _ := vnet.NewDelayFilter(sink, 100*time.Microsecond)
		ctx, cancel := context.WithCancel(context.Background())
		runner := env.Go("run", func() { df.Run(ctx) })
		src := &net.UDPAddr{IP: net.IPv4(10, 0, 0, 1), Port: 1}
		dst := &net.UDPAddr{IP: net.IPv4(10, 0, 0, 2), Port: 2}
		spawn(func(w int, ops []int) {
			for _, o := range ops {
				vnet.VerifInject(df, src, dst, make([]byte, 1+o%100))
				if o%3 == 0 {
					env.Sleep(time.Duration(o%200) * time.Microsecond)
				}
			}
		})
		env.Join(hs...)
		env.Idle(time.Second)
		cancel()
		env.Join(runner)
	case "udpwrite":
		// batch mode, small batches, every client writes on the accepted connections: the batch
		// queue, its flush and the ticker-driven flush are shared by all writers
		simnet.Reset(env.Stamp)
		laddr := &net.UDPAddr{IP: net.IPv4(127, 0, 0, 1), Port: 7000}
		lcfg := &udp.ListenConfig{Backlog: 4, Batch: udp.BatchIOConfig{Enable: true, ReadBatchSize: 2, WriteBatchSize: 2, WriteBatchInterval: 100 * time.Microsecond}}
		l, err := lcfg.Listen("udp", laddr)
		if err != nil {
			env.Infra("Listen: %v", err)
			return
		}
		var peers []*simnet.UDPConn
		var conns []net.Conn
		for i := 0; i < 2; i++ {
			p, _ := simnet.ListenUDP("udp", &net.UDPAddr{IP: net.IPv4(127, 0, 0, 1), Port: 7001 + i})
			peers = append(peers, p)
			_, _ = p.WriteTo([]byte{1, 2, 3}, laddr)
			c, err := l.Accept()
			if err != nil {
				env.Infra("Accept: %v", err)
				return
			}
			conns = append(conns, c)
		}
		spawn(func(w int, ops []int) {
			for _, o := range ops {
				_, _ = conns[o%2].Write(make([]byte, 1+o%40))
				if o%4 == 0 {
					env.Sleep(time.Duration(o%120) * time.Microsecond)
				}
			}
		})
		env.Join(hs...)
		env.Sleep(time.Millisecond)
		for _, c := range conns {
			_ = c.Close()
		}
		_ = l.Close()
		for _, p := range peers {
			_ = p.Close()
		}
	case "udp":
		simnet.Reset(env.Stamp)
		laddr := &net.UDPAddr{IP: net.IPv4(127, 0, 0, 1), Port: 7000}
		lcfg := &udp.ListenConfig{Backlog: 4}
		if len(sc.Ops[0])%2 == 0 {
			// batch mode: a writer goroutine flushes queued datagrams on a ticker
			lcfg.Batch = udp.BatchIOConfig{Enable: true, ReadBatchSize: 2, WriteBatchSize: 3, WriteBatchInterval: 200 * time.Microsecond}
		}
		batchMode := lcfg.Batch.Enable
		l, err := lcfg.Listen("udp", laddr)
		if err != nil {
			env.Infra("Listen: %v", err)
			return
		}
		var peers []*simnet.UDPConn
		for i := 0; i < 2; i++ {
			p, _ := simnet.ListenUDP("udp", &net.UDPAddr{IP: net.IPv4(127, 0, 0, 1), Port: 7001 + i})
			peers = append(peers, p)
		}
		var conns []net.Conn
		var cmu simrt.Mutex
		acceptor := env.Go("acceptor", func() {
			for {
				c, err := l.Accept()
				if err != nil {
					return
				}
				cmu.Lock()
				conns = append(conns, c)
				cmu.Unlock()
			}
		})
		pick := func(o int) net.Conn {
			cmu.Lock()
			defer cmu.Unlock()
			if len(conns) == 0 {
				return nil
			}
			return conns[o%len(conns)]
		}
		spawn(func(w int, ops []int) {
			buf := make([]byte, 256)
			for _, o := range ops {
				k := o % 7
				if batchMode && k == 2 {
					k = 4 // batch mode: more writers on the connections (the batch queue is shared by all of them)
				}
				switch k {
				case 0, 1, 2:
					_, _ = peers[o%2].WriteTo(make([]byte, 1+o%100), laddr)
				case 3:
					if c := pick(o); c != nil {
						_ = c.SetReadDeadline(soon())
						_, _ = c.Read(buf)
					}
				case 4:
					if c := pick(o); c != nil {
						_, _ = c.Write(make([]byte, 1+o%50))
						if o%3 == 0 {
							_ = c.SetWriteDeadline(soon())
						} else {
							_ = c.SetDeadline(soon())
						}
					}
				case 5:
					if c := pick(o); c != nil && o%2 == 0 {
						_ = c.Close()
					}
				case 6:
					_ = l.Addr()
					if o%5 == 0 {
						_ = l.Close()
					}
					if o%4 == 1 {
						// the configuration is the application's: Listen took what it needed, the
						// application reuses the struct for its next listener
						cmu.Lock()
						lcfg.AcceptFilter = func(b []byte) bool { return len(b) > 0 }
						lcfg.Backlog = 8
						lcfg.Batch.ReadBatchSize = 1
						cmu.Unlock()
					}
				}
			}
		})
		env.Join(hs...)
		env.Sleep(time.Millisecond) // in batch mode the flush ticker gets a few turns
		_ = l.Close()
		env.Join(acceptor)
		for _, c := range conns {
			_ = c.Close()
		}
		for _, p := range peers {
			_ = p.Close()
		}
	}
}

// ---------------------------------------------------------------------------
// race reports

var racePos int64

func raceLogPath() string {
	for _, kv := range strings.Fields(os.Getenv("GORACE")) {
		if strings.HasPrefix(kv, "log_path=") {
			return fmt.Sprintf("%s.%d", strings.TrimPrefix(kv, "log_path="), os.Getpid())
		}
	}
	return ""
}

var funcLine = regexp.MustCompile(`^  (\S+)\(`)

type access struct {
	owner string // first frame outside the runtime and the standard library's sync machinery
}

func parseReports(text string) [][]string {
	var out [][]string
	for _, blk := range strings.Split(text, "==================") {
		if !strings.Contains(blk, "WARNING: DATA RACE") {
			continue
		}
		// sections: the two accesses come first, goroutine creation stacks afterwards
		var owners []string
		lines := strings.Split(blk, "\n")
		inAccess := false
		found := false
		for _, ln := range lines {
			switch {
			case strings.HasPrefix(ln, "Goroutine "):
				inAccess = false
			case strings.Contains(ln, " by goroutine ") || strings.Contains(ln, " by main goroutine"):
				inAccess = true
				found = false
			case inAccess && !found:
				if m := funcLine.FindStringSubmatch(ln); m != nil {
					fn := m[1]
					if strings.HasPrefix(fn, "runtime.") || strings.HasPrefix(fn, "sync.") || strings.HasPrefix(fn, "sync/atomic.") || strings.HasPrefix(fn, "internal/") {
						continue
					}
					if strings.Contains(fn, "/zzverif/simrt.(*Rand).") || strings.Contains(fn, "/zzverif/simrt.(*Source).") {
						continue // the stand-in for *rand.Rand: the access belongs to its caller, as with math/rand itself
					}
					if strings.Contains(fn, "/zzverif/simnet.") {
						continue // the stub kernel touching buffers it was handed (as sendmsg/recvmsg would): attributed to the caller
					}
					owners = append(owners, fn)
					found = true
				}
			}
		}
		if len(owners) >= 2 {
			out = append(out, owners[:2])
		}
	}
	return out
}

func isRepo(fn string) bool {
	return strings.HasPrefix(fn, "github.com/pion/transport/v3/") && !strings.Contains(fn, "/zzverif/")
}

func isClient(fn string) bool { return strings.HasPrefix(fn, "verifharness/") }

func post(sci interface{}, res *simrt.Result) *simrt.Violation {
	path := raceLogPath()
	if path == "" {
		return nil
	}
	b, err := os.ReadFile(path)
	if err != nil || int64(len(b)) <= racePos {
		return nil
	}
	text := string(b[racePos:])
	racePos = int64(len(b))
	for _, owners := range parseReports(text) {
		a, c := owners[0], owners[1]
		if !(isRepo(a) || isRepo(c)) {
			continue
		}
		if !((isRepo(a) || isClient(a)) && (isRepo(c) || isClient(c))) {
			continue // one side is simulator / library bookkeeping
		}
		pair := []string{strings.TrimPrefix(a, "github.com/pion/transport/v3/"), strings.TrimPrefix(c, "github.com/pion/transport/v3/")}
		sort.Strings(pair)
		// keep the report text of this race
		detail := text
		if i := strings.Index(text, "WARNING: DATA RACE"); i >= 0 {
			detail = text[i:]
		}
		if len(detail) > 6000 {
			detail = detail[:6000]
		}
		return &simrt.Violation{Class: "C19/race:" + pair[0] + "|" + pair[1], Detail: detail}
	}
	return nil
}

func shrinkSc(sci interface{}) []interface{} {
	sc := sci.(*scenario)
	var out []interface{}
	if sc.Workers > 2 {
		c := *sc
		c.Workers--
		c.Ops = sc.Ops[:c.Workers]
		out = append(out, &c)
	}
	for w := range sc.Ops {
		for i := range sc.Ops[w] {
			if len(sc.Ops[w]) > 1 {
				c := *sc
				c.Ops = append([][]int(nil), sc.Ops...)
				c.Ops[w] = append(append([]int(nil), sc.Ops[w][:i]...), sc.Ops[w][i+1:]...)
				out = append(out, &c)
			}
		}
	}
	return out
}

func TestSim(t *testing.T) {
	if !simrt.RaceEnabled {
		t.Fatal("the C19 harness must be built with -race")
	}
	harn.Main(t, &harn.Spec{
		ID: "C19", Gen: gen, New: func() interface{} { return &scenario{} }, Run: run, Post: post, Shrink: shrinkSc,
		LeakOK: true, NoShrink: true,
		Knobs: func(r *harn.Rng, sci interface{}, cfg *simrt.Config) {
			// a stall fault lets up to 40 s pass: with a 50 us flush ticker that is close to a
			// million timer firings of real work per stall
			if sc := sci.(*scenario); sc.Program == "udpwrite" || (sc.Program == "udp" && len(sc.Ops[0])%2 == 0) {
				cfg.StallP = 0
			}
		},
	})
}
