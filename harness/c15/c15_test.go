// C15 — token bucket filter never exceeds burst plus rate and keeps FIFO order.
package c15

import (
	"bytes"
	"encoding/binary"
	"fmt"
	"net"
	"testing"
	"time"

	"github.com/pion/transport/v3/vnet"
	"github.com/pion/transport/v3/zzverif/harn"
	"github.com/pion/transport/v3/zzverif/simrt"
)

type arrival struct {
	GapNs int64 `json:"gapNs"`
	Len   int   `json:"len"`
}

type reconf struct {
	AfterNs int64  `json:"afterNs"`
	What    string `json:"what"` // rate | burst | rate-again | burst-again (the option value given to the constructor is applied once more)
	Value   int    `json:"value"`
}

type scenario struct {
	Rate      int         `json:"rate"`  // bit/s
	Burst     int         `json:"burst"` // bytes
	Queue     int         `json:"queue"` // bytes
	Producers [][]arrival `json:"producers"`
	Reconf    []reconf    `json:"reconf"`
	NoRateOpt bool        `json:"noRateOpt,omitempty"` // the filter is built without a TBFRate option: the documented default of 1 MBit/s applies
	SinkStallEvery int    `json:"sinkStallEvery,omitempty"` // the NIC behind the filter blocks for SinkStallNs on every k-th datagram it is handed
	SinkStallNs    int64  `json:"sinkStallNs,omitempty"`
	CloseAfterNs int64    `json:"closeAfterNs"` // idle time before Close (0: close while datagrams may still be queued)
}

func gen(r *harn.Rng, tier string) interface{} {
	sc := &scenario{
		Rate:  r.Pick(100*vnet.KBit, 500*vnet.KBit, 1*vnet.MBit, 2*vnet.MBit, 8*vnet.MBit),
		Burst: r.Pick(100, 1000, 8000, 8000, 20000),
		Queue: r.Pick(50000, 50000, 3000, 100, 12000),
	}
	if r.Bool(0.1) {
		sc.NoRateOpt = true
		sc.Rate = 1 * vnet.MBit
	}
	if r.Bool(0.06) {
		sc.Queue = r.Pick(-1, -1, 0, -50000) // zero or negative: no limit
	}
	np := 1
	if r.Bool(0.25) {
		np = 2
	}
	big := r.Bool(0.08)
	if big {
		// a queue larger than the default and a backlog that needs it
		sc.Queue = r.Pick(65536, 200000)
		sc.Burst = r.Pick(8000, 20000)
		np = 1
	}
	for p := 0; p < np; p++ {
		var as []arrival
		nArr := r.Range(2, 25)
		if big {
			nArr = r.Range(50, 150)
		}
		for i, n := 0, nArr; i < n; i++ {
			var gap int64
			k := r.Intn(8)
			if big && i > 0 {
				k = 3 // gaps of 1 ns .. 1 ms: tokens trickle in while the backlog builds up
			}
			switch k {
			case 0, 1, 2:
				gap = 0
			case 3:
				gap = int64(r.Pick(1, 1000, 100000, 1000000))
			case 4:
				gap = 100e6 + int64(r.Pick(-1000000, -1, 0, 1, 1000000, 2000000))
			case 5:
				gap = int64(r.Pick(2, 3, 10)) * 100e6
			case 6:
				gap = int64(r.Pick(50, 99, 101)) * 1e6
			default:
				gap = int64(r.Intn(30)) * 1e6
			}
			l := r.Pick(0, 4, 100, 500, 1000, 1200, 1500)
			if big {
				l = r.Pick(1000, 1200, 1500)
			}
			if r.Bool(0.1) {
				l = sc.Burst + r.Pick(-1, 0, 1, 100)
			}
			if l < 0 {
				l = 0
			}
			if l > 60000 {
				l = 60000
			}
			as = append(as, arrival{GapNs: gap, Len: l})
		}
		sc.Producers = append(sc.Producers, as)
	}
	if r.Bool(0.15) {
		sc.SinkStallEvery = r.Pick(1, 2, 3, 5)
		sc.SinkStallNs = int64(r.Pick(1, 50, 150, 250, 400)) * 1e6
	}
	sc.CloseAfterNs = int64(r.Pick(0, 0, 1000, 1000000, 1000000000))
	if big {
		// the filter forwards on arrivals only: a trickle of small datagrams afterwards lets the
		// queue drain, so that datagrams accepted after a discarded one are seen leaving
		for i, n := 0, r.Range(20, 60); i < n; i++ {
			sc.Producers[0] = append(sc.Producers[0], arrival{GapNs: int64(r.Pick(5, 10, 20)) * 1e6, Len: 4})
		}
	}
	if r.Bool(0.3) {
		nrc := r.Range(1, 3)
		quick := r.Bool(0.25)
		if quick {
			nrc = r.Range(4, 8) // several raise/lower cycles in quick succession
		}
		for i, n := 0, nrc; i < n; i++ {
			if quick {
				v := r.Pick(1000, 30000)
				if i%2 == 1 {
					v = r.Pick(100, 1000, 8000)
				}
				sc.Reconf = append(sc.Reconf, reconf{AfterNs: int64(r.Pick(1, 5, 20, 50)) * 1e6, What: "burst", Value: v})
				continue
			}
			if r.Bool(0.2) {
				// a setting changed and put back with the option Set returned (the documented way to restore it)
				sc.Reconf = append(sc.Reconf, reconf{AfterNs: int64(r.Intn(400)) * 1e6, What: []string{"roundtrip-queue", "roundtrip-burst", "roundtrip-rate"}[r.Intn(3)], Value: r.Pick(100, 3000, 50000, 1000000)})
			} else if r.Bool(0.25) {
				sc.Reconf = append(sc.Reconf, reconf{AfterNs: int64(r.Intn(400)) * 1e6, What: []string{"rate-again", "burst-again"}[r.Intn(2)]})
			} else if r.Bool(0.5) {
				sc.Reconf = append(sc.Reconf, reconf{AfterNs: int64(r.Intn(400)) * 1e6, What: "rate", Value: r.Pick(100*vnet.KBit, 1*vnet.MBit, 8*vnet.MBit)})
			} else {
				sc.Reconf = append(sc.Reconf, reconf{AfterNs: int64(r.Intn(400)) * 1e6, What: "burst", Value: r.Pick(100, 1000, 8000, 30000)})
			}
		}
	}
	return sc
}

type sent struct {
	id       uint32
	producer int
	payload  []byte
	inv, ret uint64
}

type fwd struct {
	id    uint32
	data  []byte
	at    time.Time
	stamp uint64
}

type setting struct {
	value    int
	inv, ret uint64 // ret == 0: still in progress
	tInv     time.Time
}

func payload(id uint32, n int) []byte {
	b := harn.Bytes(uint64(id)+77, n+4)
	binary.BigEndian.PutUint32(b, id)
	return b // 4-byte id followed by n bytes
}

func run(env *simrt.Env, sci interface{}) {
	sc := sci.(*scenario)
	var got []fwd
	sink := &vnet.VerifSink{OnChunk: func(_, _ net.Addr, p []byte) {
		f := fwd{data: append([]byte(nil), p...), at: env.Now(), stamp: env.Stamp()}
		if len(p) >= 4 {
			f.id = binary.BigEndian.Uint32(p)
		}
		got = append(got, f)
		if sc.SinkStallEvery > 0 && len(got)%sc.SinkStallEvery == 0 {
			env.Sleep(time.Duration(sc.SinkStallNs)) // a slow NIC: the filter's goroutine is held here
			env.Fault("slow-nic")
		}
	}}
	optRate, optBurst := vnet.TBFRate(sc.Rate), vnet.TBFMaxBurst(sc.Burst)
	opts := []vnet.TBFOption{optRate, optBurst, vnet.TBFQueueSizeInBytes(sc.Queue)}
	if sc.NoRateOpt {
		opts = opts[1:]
	}
	tbf, err := vnet.NewTokenBucketFilter(sink, opts...)
	if err != nil {
		env.Infra("NewTokenBucketFilter: %v", err)
		return
	}
	rates := []setting{{value: sc.Rate, ret: 1}}
	bursts := []setting{{value: sc.Burst, ret: 1}}
	var sents []*sent
	nextID := uint32(1)
	plans := make([][]*sent, len(sc.Producers))
	for p, as := range sc.Producers {
		for _, a := range as {
			l := a.Len - 4
			if l < 0 {
				l = 0
			}
			s := &sent{id: nextID, producer: p, payload: payload(nextID, l)}
			if a.Len == 0 && len(sc.Producers) == 1 {
				s.payload = []byte{} // a truly empty datagram (no room for an id: matched by position below)
			}
			nextID++
			plans[p] = append(plans[p], s)
			sents = append(sents, s)
		}
	}
	src := &net.UDPAddr{IP: net.IPv4(10, 0, 0, 1), Port: 1000}
	dst := &net.UDPAddr{IP: net.IPv4(10, 0, 0, 2), Port: 2000}
	var hs []*simrt.Handle
	for p := range sc.Producers {
		p := p
		hs = append(hs, env.Go(fmt.Sprintf("producer%d", p), func() {
			for i, a := range sc.Producers[p] {
				env.Sleep(time.Duration(a.GapNs))
				s := plans[p][i]
				s.inv = env.Stamp()
				vnet.VerifInject(tbf, src, dst, append([]byte(nil), s.payload...))
				s.ret = env.Stamp()
			}
		}))
	}
	if len(sc.Reconf) > 0 {
		hs = append(hs, env.Go("reconf", func() {
			for _, rc := range sc.Reconf {
				env.Sleep(time.Duration(rc.AfterNs))
				st := setting{value: rc.Value, inv: env.Stamp(), tInv: env.Now()}
				if rc.What == "rate-again" {
					st.value = sc.Rate
					rates = append(rates, st)
					tbf.Set(optRate) // the very option value the filter was built with
					rates[len(rates)-1].ret = env.Stamp()
				} else if rc.What == "burst-again" {
					st.value = sc.Burst
					bursts = append(bursts, st)
					tbf.Set(optBurst)
					bursts[len(bursts)-1].ret = env.Stamp()
				} else if rc.What == "roundtrip-queue" {
					prev := tbf.Set(vnet.TBFQueueSizeInBytes(rc.Value))
					tbf.Set(prev) // rate and burst are what they were
				} else if rc.What == "roundtrip-burst" {
					before := sc.Burst
					if len(bursts) > 0 {
						before = bursts[len(bursts)-1].value
					}
					bursts = append(bursts, st)
					prev := tbf.Set(vnet.TBFMaxBurst(rc.Value))
					bursts[len(bursts)-1].ret = env.Stamp()
					bursts = append(bursts, setting{value: before, inv: env.Stamp(), tInv: env.Now()})
					tbf.Set(prev)
					bursts[len(bursts)-1].ret = env.Stamp()
				} else if rc.What == "roundtrip-rate" {
					before := sc.Rate
					if len(rates) > 0 {
						before = rates[len(rates)-1].value
					}
					st.value = 1000 * rc.Value // bit/s
					rates = append(rates, st)
					prev := tbf.Set(vnet.TBFRate(st.value))
					rates[len(rates)-1].ret = env.Stamp()
					rates = append(rates, setting{value: before, inv: env.Stamp(), tInv: env.Now()})
					tbf.Set(prev)
					rates[len(rates)-1].ret = env.Stamp()
				} else if rc.What == "rate" {
					rates = append(rates, st)
					tbf.Set(vnet.TBFRate(rc.Value))
					rates[len(rates)-1].ret = env.Stamp()
				} else {
					bursts = append(bursts, st)
					tbf.Set(vnet.TBFMaxBurst(rc.Value))
					bursts[len(bursts)-1].ret = env.Stamp()
				}
				env.Fault("reconfigure-" + rc.What)
			}
		}))
	}
	env.Join(hs...)
	env.Idle(time.Duration(sc.CloseAfterNs))
	if err := tbf.Close(); err != nil {
		env.Fail("C15/close-error", "Close: %v", err)
		return
	}
	if env.Failed() {
		return
	}
	// in force during the stamp interval [s0, s1]: the last setting completed before s0
	// and every setting whose call overlaps the interval
	maxInForce := func(hist []setting, s0, s1 uint64) int {
		last := 0
		for i, h := range hist {
			if h.ret != 0 && h.ret < s0 {
				last = i
			}
		}
		m := hist[last].value
		for i, h := range hist {
			if i > last && h.inv < s1 && h.value > m {
				m = h.value
			}
		}
		return m
	}
	byID := map[uint32]*sent{}
	for _, s := range sents {
		byID[s.id] = s
	}
	// empty datagrams carry no id (single producer only): walk the forwarded sequence along the
	// arrival sequence - it has to be a subsequence - and give each empty one the id of the
	// arrival it stands for
	if len(sc.Producers) == 1 {
		ptr := 0
		for k := range got {
			if len(got[k].data) != 0 {
				for j := ptr; j < len(sents); j++ {
					if sents[j].id == got[k].id {
						ptr = j + 1
						break
					}
				}
				continue
			}
			found := false
			for ptr < len(sents) {
				s := sents[ptr]
				ptr++
				if len(s.payload) == 0 {
					got[k].id, found = s.id, true
					break
				}
			}
			if !found {
				env.Fail("C15/reordered", "forwarded item #%d is an empty datagram, but no empty datagram arrived after the arrivals forwarded before it: the forwarded sequence is not an in-order subsequence of the arrivals", k)
				return
			}
			env.Probe("empty-datagram-forwarded")
		}
	}
	seen := map[uint32]bool{}
	pos := map[uint32]int{}
	for k, g := range got {
		s := byID[g.id]
		if s == nil {
			env.Fail("C15/invented-datagram", "forwarded a datagram (id %d, %d bytes) that never arrived", g.id, len(g.data))
			return
		}
		if seen[g.id] {
			env.Fail("C15/duplicated", "datagram %d forwarded twice", g.id)
			return
		}
		seen[g.id] = true
		pos[g.id] = k
		if !bytes.Equal(g.data, s.payload) {
			env.Fail("C15/modified", "datagram %d forwarded with different bytes", g.id)
			return
		}
	}
	for _, a := range sents {
		for _, b := range sents {
			if a == b || !seen[a.id] || !seen[b.id] {
				continue
			}
			before := (a.producer == b.producer && a.id < b.id) || (a.ret != 0 && a.ret < b.inv)
			if before && pos[a.id] > pos[b.id] {
				env.Fail("C15/reordered", "datagram %d forwarded before datagram %d although %d arrived first", b.id, a.id, a.id)
				return
			}
		}
	}
	// burst + rate bound over every sub-interval. Settings in force for an interval: the
	// filter decides a forward while it processes an arrival; everything it has read (rate,
	// burst, refill) it read after that arrival was handed in. t0(i) = hand-in stamp of the
	// latest arrival known to have been received before forward i (a producer may record
	// its return late, which only widens the window). Tokens held at forward i were clamped
	// to a burst value read in [t0(i), forward i], so the largest burst and rate in force
	// anywhere in [t0(i), forward j] bound the interval i..j.
	t0 := func(fstamp uint64) uint64 {
		var best uint64
		for _, s := range sents {
			if s.ret != 0 && s.ret < fstamp && s.inv > best {
				best = s.inv
			}
		}
		return best
	}
	for i := range got {
		sum := 0
		from := t0(got[i].stamp)
		for j := i; j < len(got); j++ {
			sum += len(got[j].data)
			dt := got[j].at.Sub(got[i].at)
			rate := maxInForce(rates, from, got[j].stamp)
			burst := maxInForce(bursts, from, got[j].stamp)
			bound := float64(burst) + float64(rate)/8*dt.Seconds() + 1
			if float64(sum) > bound {
				env.Fail("C15/burst-bound-exceeded", "datagrams #%d..#%d (%d bytes) were forwarded within %v; the largest burst (%d B) and rate (%d bit/s) in force since the arrival that triggered #%d allow %.0f bytes", i, j, sum, dt, burst, rate, i, bound)
				return
			}
		}
	}
	// a datagram is discarded only when the byte queue is full (single producer: arrival order known)
	if len(sc.Producers) == 1 {
		for k, s := range sents {
			if seen[s.id] {
				continue
			}
			laterForwarded := false
			for _, l := range sents[k+1:] {
				if seen[l.id] {
					laterForwarded = true
				}
			}
			if !laterForwarded {
				env.Probe("left-waiting-at-close")
				continue // still waiting in the queue when the filter was closed (the filter works on arrivals only)
			}
			occ := 0
			for _, e := range sents[:k] {
				if !seen[e.id] {
					continue
				}
				if got[pos[e.id]].stamp > s.inv {
					occ += len(e.payload)
				}
			}
			env.Probe("discarded")
			if sc.Queue <= 0 {
				env.Fail("C15/discarded-with-room", "datagram %d (%d bytes) was discarded although the queue size %d means unlimited", s.id, len(s.payload), sc.Queue)
				return
			}
			if occ+len(s.payload) < sc.Queue {
				env.Fail("C15/discarded-with-room", "datagram %d (%d bytes) was discarded although at most %d of %d queue bytes were occupied when it arrived", s.id, len(s.payload), occ, sc.Queue)
				return
			}
		}
	}
	// total silence: with one producer, no reconfiguration and a sink that never blocks, the first
	// datagram (smaller than the bucket) has left by the time a datagram arrives long enough after
	// it for the bucket to have filled completely
	if len(got) == 0 && len(sc.Producers) == 1 && len(sc.Reconf) == 0 && sc.SinkStallEvery == 0 && len(sents) >= 2 && len(sc.Producers[0]) == len(sents) {
		as := sc.Producers[0]
		var after int64
		for _, a := range as[1:] {
			after += a.GapNs
		}
		fill := int64(sc.Burst) * 8 * int64(time.Second) / int64(sc.Rate)
		fitsQueue := sc.Queue <= 0 || as[0].Len+100 <= sc.Queue
		if fitsQueue && as[0].Len+100 <= sc.Burst && after >= fill+int64(300*time.Millisecond) {
			env.Fail("C15/nothing-forwarded", "%d datagrams arrived over %v, the first (%d bytes) fits the queue and the bucket (%d bytes, refilled completely within %v), yet nothing was ever forwarded", len(sents), time.Duration(after), as[0].Len, sc.Burst, time.Duration(fill))
			return
		}
	}
	if len(got) >= 3 {
		env.Probe("forwarded>=3")
	}
}

func shrinkSc(sci interface{}) []interface{} {
	sc := sci.(*scenario)
	var out []interface{}
	if len(sc.Reconf) > 0 {
		c := *sc
		c.Reconf = nil
		out = append(out, &c)
	}
	for p := range sc.Producers {
		if len(sc.Producers) > 1 {
			c := *sc
			c.Producers = append(append([][]arrival(nil), sc.Producers[:p]...), sc.Producers[p+1:]...)
			out = append(out, &c)
		}
		n := len(sc.Producers[p])
		for chunk := n / 2; chunk >= 1; chunk /= 2 {
			for i := 0; i+chunk <= n; i += chunk {
				c := *sc
				c.Producers = append([][]arrival(nil), sc.Producers...)
				c.Producers[p] = append(append([]arrival(nil), sc.Producers[p][:i]...), sc.Producers[p][i+chunk:]...)
				out = append(out, &c)
			}
		}
	}
	return out
}

func nonTrivial(sci interface{}, res *simrt.Result) (bool, uint64) {
	return res.Probes["forwarded>=3"] > 0, res.SchedHash
}

func TestSim(t *testing.T) {
	harn.Main(t, &harn.Spec{
		// The bound is about time: a filter goroutine that is stalled between its token
		// accounting and the hand-over would break it for any implementation, so stall
		// faults and large clock-read jitter are off for this property.
		Knobs: func(r *harn.Rng, sc interface{}, cfg *simrt.Config) { cfg.StallP = 0; cfg.Jitter = "1ns" },
		ID: "C15", Gen: gen, New: func() interface{} { return &scenario{} }, Run: run, Shrink: shrinkSc, NonTrivial: nonTrivial,
	})
}
