// C09 — Deadline fires exactly when the latest set time passes, never from a stale timer.
package c09

import (
	"context"
	"fmt"
	"testing"
	"time"

	"github.com/pion/transport/v3/deadline"
	"github.com/pion/transport/v3/zzverif/harn"
	"github.com/pion/transport/v3/zzverif/simrt"
)

type op struct {
	Kind  string `json:"kind"` // zero | past | future | sleep
	DurNs int64  `json:"durNs"`
}

type scenario struct {
	Ops       []op `json:"ops"`
	Observers int  `json:"observers"`
	ObsRounds int  `json:"obsRounds"`
	ObsGapNs  int64 `json:"obsGapNs"`
}

var durs = []int64{1, 1000, 10000, 1000000, 5000000, 50000000}

func gen(r *harn.Rng, tier string) interface{} {
	sc := &scenario{}
	n := r.Range(1, 8)
	var used []int64
	for i := 0; i < n; i++ {
		switch r.Intn(10) {
		case 0:
			sc.Ops = append(sc.Ops, op{Kind: "zero"})
		case 1:
			sc.Ops = append(sc.Ops, op{Kind: "past", DurNs: durs[r.Intn(len(durs))]})
		case 2, 3, 4, 5:
			d := durs[r.Intn(len(durs))]
			used = append(used, d)
			sc.Ops = append(sc.Ops, op{Kind: "future", DurNs: d})
		default:
			// sleeps equal to, just below, just above an outstanding deadline
			d := durs[r.Intn(len(durs))]
			if len(used) > 0 && r.Bool(0.8) {
				d = used[r.Intn(len(used))]
			}
			d += int64(r.Pick(0, 0, 0, -1, 1, 2))
			if d < 0 {
				d = 0
			}
			sc.Ops = append(sc.Ops, op{Kind: "sleep", DurNs: d})
		}
	}
	sc.Observers = r.Intn(3)
	sc.ObsRounds = r.Range(1, 4)
	sc.ObsGapNs = durs[r.Intn(4)]
	return sc
}

type setRec struct {
	val      time.Time
	inv, ret uint64
}

func isClosed(ch <-chan struct{}) bool {
	select {
	case <-ch:
		return true
	default:
		return false
	}
}

func run(env *simrt.Env, sci interface{}) {
	sc := sci.(*scenario)
	d := deadline.New()
	var sets []setRec

	// admissible returns the Set values that may govern an observation made between
	// stamps s0 and s1; initial=true if "no Set yet" is admissible too.
	admissible := func(s0, s1 uint64) (vals []time.Time, initial bool) {
		last := -1
		for i, s := range sets {
			if s.ret != 0 && s.ret < s0 {
				last = i
			}
		}
		if last >= 0 {
			vals = append(vals, sets[last].val)
		} else {
			initial = true
		}
		for i, s := range sets {
			if i == last {
				continue
			}
			if s.inv < s1 && (s.ret == 0 || s.ret > s0) {
				vals = append(vals, s.val)
			}
		}
		return
	}
	observe := func(who string) bool {
		s0 := env.Stamp()
		ch := d.Done()
		closed := isClosed(ch)
		s1 := env.Stamp()
		tObs := env.Now()
		vals, _ := admissible(s0, s1)
		if closed {
			ok := false
			for _, v := range vals {
				if !v.IsZero() && !v.After(tObs) {
					ok = true
				}
			}
			if !ok {
				env.Fail("C09/done-signalled-without-due-deadline", "%s: Done is closed at %v but no admissible Set has a non-zero time that has passed: admissible=%v (run start %v)", who, tObs.Sub(env.Start()), fmtVals(env, vals), 0)
				return false
			}
		}
		s0 = env.Stamp()
		err := d.Err()
		s1 = env.Stamp()
		tObs = env.Now()
		vals, _ = admissible(s0, s1)
		if err != nil {
			if err != context.DeadlineExceeded {
				env.Fail("C09/wrong-error", "%s: Err() = %v", who, err)
				return false
			}
			ok := false
			for _, v := range vals {
				if !v.IsZero() && !v.After(tObs) {
					ok = true
				}
			}
			if !ok {
				env.Fail("C09/err-without-due-deadline", "%s: Err() reports deadline exceeded at %v but no admissible Set has a non-zero time that has passed: admissible=%v", who, tObs.Sub(env.Start()), fmtVals(env, vals))
				return false
			}
		}
		s0 = env.Stamp()
		dl, has := d.Deadline()
		s1 = env.Stamp()
		vals, initial := admissible(s0, s1)
		ok := initial && !has && dl.IsZero()
		for _, v := range vals {
			if v.IsZero() && !has && dl.IsZero() {
				ok = true
			}
			if !v.IsZero() && has && dl.Equal(v) {
				ok = true
			}
		}
		if !ok {
			env.Fail("C09/deadline-not-last-set", "%s: Deadline() = (%v,%v), admissible=%v initial=%v", who, dl.Sub(env.Start()), has, fmtVals(env, vals), initial)
			return false
		}
		return true
	}

	var hs []*simrt.Handle
	for i := 0; i < sc.Observers; i++ {
		i := i
		hs = append(hs, env.Go(fmt.Sprintf("observer%d", i), func() {
			for k := 0; k < sc.ObsRounds; k++ {
				if !observe(fmt.Sprintf("observer %d", i)) {
					return
				}
				env.Sleep(time.Duration(sc.ObsGapNs))
			}
		}))
	}
	hs = append(hs, env.Go("setter", func() {
		for _, o := range sc.Ops {
			if env.Failed() {
				return
			}
			switch o.Kind {
			case "sleep":
				env.Sleep(time.Duration(o.DurNs))
			default:
				var v time.Time
				switch o.Kind {
				case "past":
					v = env.Now().Add(-time.Duration(o.DurNs))
				case "future":
					v = env.Now().Add(time.Duration(o.DurNs))
				}
				sets = append(sets, setRec{val: v, inv: env.Stamp()})
				d.Set(v)
				sets[len(sets)-1].ret = env.Stamp()
			}
			if !observe("setter") {
				return
			}
		}
	}))
	env.Join(hs...)
	if env.Failed() {
		return
	}
	// liveness at quiescence: every timer has fired and every callback has run
	env.Quiesce()
	closed := isClosed(d.Done())
	err := d.Err()
	var last time.Time
	if len(sets) > 0 {
		last = sets[len(sets)-1].val
	}
	if last.IsZero() {
		if closed || err != nil {
			env.Fail("C09/signalled-without-deadline", "at quiescence the last Set was zero (or none) but Done closed=%v Err=%v", closed, err)
		}
		return
	}
	if !closed || err != context.DeadlineExceeded {
		env.Fail("C09/not-signalled-after-deadline", "at quiescence the last Set (%v after start) has passed but Done closed=%v Err=%v", last.Sub(env.Start()), closed, err)
		return
	}
	if closed {
		env.Probe("expired-at-end")
	}
}

func fmtVals(env *simrt.Env, vals []time.Time) []string {
	var out []string
	for _, v := range vals {
		if v.IsZero() {
			out = append(out, "zero")
		} else {
			out = append(out, v.Sub(env.Start()).String())
		}
	}
	return out
}

func shrinkSc(sci interface{}) []interface{} {
	sc := sci.(*scenario)
	var out []interface{}
	for i := range sc.Ops {
		c := *sc
		c.Ops = append(append([]op(nil), sc.Ops[:i]...), sc.Ops[i+1:]...)
		out = append(out, &c)
	}
	if sc.Observers > 0 {
		c := *sc
		c.Observers--
		out = append(out, &c)
	}
	if sc.ObsRounds > 1 {
		c := *sc
		c.ObsRounds--
		out = append(out, &c)
	}
	return out
}

func TestSim(t *testing.T) {
	harn.Main(t, &harn.Spec{
		ID: "C09", Gen: gen, New: func() interface{} { return &scenario{} }, Run: run, Shrink: shrinkSc,
	})
}
