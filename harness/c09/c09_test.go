// C09 — Deadline fires exactly when the latest set time passes, never from a stale timer.
package c09

import (
	"context"
	"fmt"
	"testing"
	"time"

	"github.com/pion/transport/v3/deadline"
	"github.com/pion/transport/v3/zzverif/harn"
	"github.com/pion/transport/v3/zzverif/simrt"
)

type op struct {
	Kind  string `json:"kind"` // zero | past | future | sleep | far (centuries ahead) | ancient (centuries ago)
	DurNs int64  `json:"durNs"`
}

type scenario struct {
	Ops       []op `json:"ops"`
	Ops2      []op `json:"ops2,omitempty"` // a second, concurrent setter
	Strict    bool `json:"strict,omitempty"` // one setter, 1 ns clock jitter: after every step the system settles and Done must be closed exactly if the last Set has passed
	Observers int  `json:"observers"`
	ObsRounds int  `json:"obsRounds"`
	ObsGapNs  int64 `json:"obsGapNs"`
}

// whole and fractional milliseconds: a timer that rounds its wait must never round it down
var durs = []int64{1, 1000, 10000, 1000000, 5000000, 50000000, 1300000, 10400000, 2499999}

func gen(r *harn.Rng, tier string) interface{} {
	sc := &scenario{}
	n := r.Range(1, 8)
	var used []int64
	for i := 0; i < n; i++ {
		switch r.Intn(10) {
		case 0:
			sc.Ops = append(sc.Ops, op{Kind: "zero"})
		case 1:
			sc.Ops = append(sc.Ops, op{Kind: "past", DurNs: durs[r.Intn(len(durs))]})
		case 2, 3, 4, 5:
			d := durs[r.Intn(len(durs))]
			used = append(used, d)
			sc.Ops = append(sc.Ops, op{Kind: "future", DurNs: d})
		default:
			// sleeps equal to, just below, just above an outstanding deadline
			d := durs[r.Intn(len(durs))]
			if len(used) > 0 && r.Bool(0.8) {
				d = used[r.Intn(len(used))]
			}
			d += int64(r.Pick(0, 0, 0, -1, 1, 2))
			if d < 0 {
				d = 0
			}
			sc.Ops = append(sc.Ops, op{Kind: "sleep", DurNs: d})
		}
	}
	if r.Bool(0.1) {
		// values a nanosecond counter cannot hold
		k := "far"
		if r.Bool(0.5) {
			k = "ancient"
		}
		sc.Ops = append(sc.Ops, op{Kind: k})
	}
	switch r.Intn(5) {
	case 0:
		for i, n := 0, r.Range(1, 3); i < n; i++ {
			switch r.Intn(4) {
			case 0:
				sc.Ops2 = append(sc.Ops2, op{Kind: "zero"})
			case 1:
				sc.Ops2 = append(sc.Ops2, op{Kind: "sleep", DurNs: durs[r.Intn(len(durs))]})
			default:
				sc.Ops2 = append(sc.Ops2, op{Kind: "future", DurNs: durs[r.Intn(len(durs))]})
			}
		}
	case 1, 2:
		sc.Strict = true
	}
	sc.Observers = r.Intn(3)
	sc.ObsRounds = r.Range(1, 4)
	sc.ObsGapNs = durs[r.Intn(4)]
	return sc
}

type setRec struct {
	val      time.Time
	inv, ret uint64
}

func isClosed(ch <-chan struct{}) bool {
	select {
	case <-ch:
		return true
	default:
		return false
	}
}

func run(env *simrt.Env, sci interface{}) {
	sc := sci.(*scenario)
	d := deadline.New()
	var sets []*setRec
	// possiblyLast: the Sets completed before event `before` that no other Set, begun after they
	// returned and completed before `before`, has certainly replaced
	possiblyLast := func(before uint64) (idx []int) {
		for i, s := range sets {
			if s.ret == 0 || s.ret >= before {
				continue
			}
			replaced := false
			for _, t := range sets {
				if t != s && t.inv > s.ret && t.ret != 0 && t.ret < before {
					replaced = true
				}
			}
			if !replaced {
				idx = append(idx, i)
			}
		}
		return
	}

	// admissible returns the Set values that may govern an observation made between
	// stamps s0 and s1; initial=true if "no Set yet" is admissible too.
	admissible := func(s0, s1 uint64) (vals []time.Time, initial bool) {
		isCand := map[int]bool{}
		for _, i := range possiblyLast(s0) {
			vals = append(vals, sets[i].val)
			isCand[i] = true
		}
		if len(isCand) == 0 {
			initial = true
		}
		for i, s := range sets {
			if isCand[i] {
				continue
			}
			if s.inv < s1 && (s.ret == 0 || s.ret > s0) {
				vals = append(vals, s.val)
			}
		}
		return
	}
	// the channel most recently handed out by Done, and when: a waiter blocked on it is only
	// ever woken by this very channel being closed, whatever later calls of Done report
	var heldCh <-chan struct{}
	var heldAt uint64
	observe := func(who string) bool {
		s0 := env.Stamp()
		ch := d.Done()
		closed := isClosed(ch)
		s1 := env.Stamp()
		if s0 >= heldAt {
			heldCh, heldAt = ch, s0
		}
		tObs := env.Now()
		vals, _ := admissible(s0, s1)
		if closed {
			ok := false
			for _, v := range vals {
				if !v.IsZero() && !v.After(tObs) {
					ok = true
				}
			}
			if !ok {
				env.Fail("C09/done-signalled-without-due-deadline", "%s: Done is closed at %v but no admissible Set has a non-zero time that has passed: admissible=%v (run start %v)", who, tObs.Sub(env.Start()), fmtVals(env, vals), 0)
				return false
			}
		}
		s0 = env.Stamp()
		err := d.Err()
		s1 = env.Stamp()
		tObs = env.Now()
		vals, _ = admissible(s0, s1)
		if err != nil {
			if err != context.DeadlineExceeded {
				env.Fail("C09/wrong-error", "%s: Err() = %v", who, err)
				return false
			}
			ok := false
			for _, v := range vals {
				if !v.IsZero() && !v.After(tObs) {
					ok = true
				}
			}
			if !ok {
				env.Fail("C09/err-without-due-deadline", "%s: Err() reports deadline exceeded at %v but no admissible Set has a non-zero time that has passed: admissible=%v", who, tObs.Sub(env.Start()), fmtVals(env, vals))
				return false
			}
		}
		s0 = env.Stamp()
		dl, has := d.Deadline()
		s1 = env.Stamp()
		vals, initial := admissible(s0, s1)
		ok := initial && !has && dl.IsZero()
		for _, v := range vals {
			if v.IsZero() && !has && dl.IsZero() {
				ok = true
			}
			if !v.IsZero() && has && dl.Equal(v) {
				ok = true
			}
		}
		if !ok {
			env.Fail("C09/deadline-not-last-set", "%s: Deadline() = (%v,%v), admissible=%v initial=%v", who, dl.Sub(env.Start()), has, fmtVals(env, vals), initial)
			return false
		}
		return true
	}

	var hs []*simrt.Handle
	for i := 0; i < sc.Observers; i++ {
		i := i
		hs = append(hs, env.Go(fmt.Sprintf("observer%d", i), func() {
			for k := 0; k < sc.ObsRounds; k++ {
				if !observe(fmt.Sprintf("observer %d", i)) {
					return
				}
				env.Sleep(time.Duration(sc.ObsGapNs))
			}
		}))
	}
	setter := func(who string, ops []op) func() {
		return func() {
			for _, o := range ops {
				if env.Failed() {
					return
				}
				switch o.Kind {
				case "sleep":
					env.Sleep(time.Duration(o.DurNs))
				default:
					var v time.Time
					switch o.Kind {
					case "past":
						v = env.Now().Add(-time.Duration(o.DurNs))
					case "future":
						v = env.Now().Add(time.Duration(o.DurNs))
					case "far":
						v = time.Date(2500, 1, 2, 3, 4, 5, 6, time.UTC)
					case "ancient":
						v = time.Date(1000, 1, 2, 3, 4, 5, 6, time.UTC)
					}
					rec := &setRec{val: v, inv: env.Stamp()}
					sets = append(sets, rec)
					d.Set(v)
					rec.ret = env.Stamp()
				}
				if !observe(who) {
					return
				}
				if sc.Strict && len(sc.Ops2) == 0 {
					// let everything that is due happen, then Done is closed exactly if the last Set
					// (one setter: the latest) is a non-zero time that has passed
					env.QuiesceWithin(time.Nanosecond)
					if len(sets) == 0 {
						continue
					}
					last := sets[len(sets)-1].val
					now := env.Now()
					if !last.IsZero() && !last.Add(time.Microsecond).After(now) {
						// first the channel a waiter already holds (handed out after this Set returned,
						// no observers besides this worker in a strict run can have replaced it), then a fresh one
						if held := heldCh; heldAt > sets[len(sets)-1].ret && !isClosed(held) {
							env.Fail("C09/waiter-never-woken", "%s: the system has settled at %v, the last Set (%v after start) has passed, but the channel Done handed out after that Set is still open: a waiter blocked on it sleeps on", who, now.Sub(env.Start()), last.Sub(env.Start()))
							return
						}
						if !isClosed(d.Done()) {
							env.Fail("C09/not-signalled-after-deadline", "%s: the system has settled at %v, the last Set (%v after start) has passed, but Done is not closed (Err=%v)", who, now.Sub(env.Start()), last.Sub(env.Start()), d.Err())
							return
						}
					}
					env.Probe("strict-check")
				}
			}
		}
	}
	hs = append(hs, env.Go("setter", setter("setter", sc.Ops)))
	if len(sc.Ops2) > 0 {
		hs = append(hs, env.Go("setter2", setter("setter 2", sc.Ops2)))
	}
	env.Join(hs...)
	if env.Failed() {
		return
	}
	// liveness at quiescence: every timer has fired and every callback has run
	env.Quiesce()
	held, heldStamp := heldCh, heldAt
	heldOpen := held != nil && !isClosed(held) // looked at before Done or Err are called again
	closed := isClosed(d.Done())
	err := d.Err()
	var last time.Time
	final := possiblyLast(^uint64(0))
	allZero, allDue := true, len(final) > 0
	for _, i := range final {
		v := sets[i].val
		if !v.IsZero() {
			allZero = false
			last = v
		}
		if v.IsZero() || v.After(env.Now()) {
			allDue = false // zero, or (centuries ahead) not reached even at quiescence
		}
	}
	if allZero {
		if closed || err != nil {
			env.Fail("C09/signalled-without-deadline", "at quiescence the last Set was zero (or none) but Done closed=%v Err=%v", closed, err)
		}
		return
	}
	if !allDue {
		return // concurrent setters left more than one candidate, not all of them due
	}
	if !closed || err != context.DeadlineExceeded {
		env.Fail("C09/not-signalled-after-deadline", "at quiescence the last Set (%v after start) has passed but Done closed=%v Err=%v", last.Sub(env.Start()), closed, err)
		return
	}
	// a waiter that obtained its channel after every Set had returned holds the final channel
	afterAll := held != nil
	for _, st := range sets {
		if st.ret == 0 || st.ret >= heldStamp {
			afterAll = false
		}
	}
	if afterAll {
		env.Probe("held-channel-checked")
		if heldOpen {
			env.Fail("C09/waiter-never-woken", "at quiescence the last Set (%v after start) has passed and Done() reports it, but the channel Done handed out after the last Set returned was never closed: a waiter blocked on it sleeps on", last.Sub(env.Start()))
			return
		}
	}
	if closed {
		env.Probe("expired-at-end")
	}
}

func fmtVals(env *simrt.Env, vals []time.Time) []string {
	var out []string
	for _, v := range vals {
		if v.IsZero() {
			out = append(out, "zero")
		} else {
			out = append(out, v.Sub(env.Start()).String())
		}
	}
	return out
}

func shrinkSc(sci interface{}) []interface{} {
	sc := sci.(*scenario)
	var out []interface{}
	for i := range sc.Ops {
		c := *sc
		c.Ops = append(append([]op(nil), sc.Ops[:i]...), sc.Ops[i+1:]...)
		out = append(out, &c)
	}
	if sc.Observers > 0 {
		c := *sc
		c.Observers--
		out = append(out, &c)
	}
	if sc.ObsRounds > 1 {
		c := *sc
		c.ObsRounds--
		out = append(out, &c)
	}
	return out
}

func TestSim(t *testing.T) {
	harn.Main(t, &harn.Spec{
		ID: "C09", Gen: gen, New: func() interface{} { return &scenario{} }, Run: run, Shrink: shrinkSc,
		Knobs: func(r *harn.Rng, sci interface{}, cfg *simrt.Config) {
			if sci.(*scenario).Strict {
				cfg.Jitter = "1ns" // the strict check compares the virtual clock with timer expiries,
				cfg.StallP = 0     // and a stall inside Set (between computing the duration and arming) legitimately delays the timer
			}
		},
	})
}
