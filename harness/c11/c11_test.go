// C11 — UDP listener hands each datagram to the one connection of its remote address.
// C12 — the listener socket lives exactly as long as the listener or an accepted conn.
//
// Real udp package (plain and batch mode) over the simnet UDP kernel stub. The oracles
// are stated on what the stub socket's ReadFrom/ReadBatch returned (C11) and on the
// stub's record of Close calls (C12).
package c11

import (
	"bytes"
	"encoding/binary"
	"errors"
	"io"
	"fmt"
	"net"
	"os"
	"sort"
	"testing"
	"time"

	"github.com/pion/transport/v3/udp"
	"github.com/pion/transport/v3/zzverif/harn"
	"github.com/pion/transport/v3/zzverif/simnet"
	"github.com/pion/transport/v3/zzverif/simrt"
)

var prop = func() string {
	if p := os.Getenv("VERIF_PROP"); p != "" {
		return p
	}
	return "C11"
}()

type dg struct {
	GapNs int64 `json:"gapNs"`
	Len   int   `json:"len"`
	Odd   bool  `json:"odd"` // first payload byte odd: refused by the accept filter when it is on
}

type scenario struct {
	Backlog    int     `json:"backlog"`
	Zoned      bool    `json:"zoned,omitempty"` // the remotes are link-local IPv6 addresses with a zone ([fe80::1%eth0]:port): the zone is part of who the remote is
	SockBuf    int     `json:"sockBuf,omitempty"` // ListenConfig.ReadBufferSize / WriteBufferSize: a wish for the operating system's socket buffers, nothing the listener itself may enforce
	Filter     bool    `json:"filter"`
	Batch      bool    `json:"batch"`
	BatchRead  int     `json:"batchRead"`
	Remotes    [][]dg  `json:"remotes"`
	CloseAfter []int   `json:"closeAfter"` // per accepted conn (accept order): Close after reading k datagrams, 0 = read until error
	ConnCloseAtNs []int64 `json:"connCloseAtNs"` // per accepted conn: a closer worker closes it at this time (0 = none)
	ListenerCloseAtNs int64 `json:"listenerCloseAtNs"` // 0 = only at teardown
	AcceptGapNs int64  `json:"acceptGapNs"` // pause of the acceptor between two Accept calls
	DropP      float64 `json:"dropP"`
	DupP       float64 `json:"dupP"`
	DelayP     float64 `json:"delayP"`
	MaxDelayNs int64   `json:"maxDelayNs"`
	ReadErrAtNs int64  `json:"readErrAtNs"` // inject a socket read error at this time (0 = none)
	ReCloseAtNs []int64 `json:"reCloseAtNs"` // per accepted conn: Close it once more at this time if it is closed by then (0 = none)
	// LastWrite: just before everything is closed, one still open connection writes a datagram
	// that cannot be sent ("oversize": larger than a UDP datagram; "fail": the socket's next
	// send fails). In batch mode the write is only queued, so the failure surfaces in Close.
	LastWrite string `json:"lastWrite,omitempty"`
	DoubleClose bool `json:"doubleClose,omitempty"` // the racy closer of a connection is doubled: two workers call Close at the same time
	// TickClose: batch mode: everything is closed right at a tick of the flush ticker (period
	// 30 min), TickDeltaNs before (+) or after (-) it, with a write still queued
	TickClose   bool  `json:"tickClose,omitempty"`
	Waiters     int   `json:"waiters,omitempty"` // before everything is closed, this many further goroutines block in Read on each open connection: Close releases all of them
	TickDeltaNs int64 `json:"tickDeltaNs,omitempty"`
	SamePort  bool   `json:"samePort,omitempty"` // the remotes share one port and differ in a high octet of their address (127.<i>.7.9:7001) instead of sharing the address
	ReadBuf   int    `json:"readBuf,omitempty"` // readers use slices of this length (0: large): longer datagrams come back cut, with a short-buffer error, and are consumed whole
	NoAccept  bool   `json:"noAccept,omitempty"` // C12: nobody calls Accept: every connection stays in the backlog until the listener is closed
	BadFirst  bool   `json:"badFirst,omitempty"` // a Listen with an invalid batch configuration is refused first; it must not keep the port
	ReadGapNs int64  `json:"readGapNs,omitempty"` // readers pause this long before every Read (lagging readers keep data in the connection's ring)
}

var gaps = []int64{0, 0, 1, 1000, 100000, 1000000, 5000000}

func gen(r *harn.Rng, tier string) interface{} {
	sc := &scenario{Backlog: r.Pick(1, 1, 2, 3, 8), Filter: r.Bool(0.3), SockBuf: r.Pick(0, 0, 0, 1, 64, 300, 4096)}
	if r.Bool(0.3) {
		sc.Batch = true
		sc.BatchRead = r.Pick(0, 2, 4)
	}
	nr := r.Range(1, 5)
	for i := 0; i < nr; i++ {
		var plan []dg
		for j, n := 0, r.Range(1, 6); j < n; j++ {
			plan = append(plan, dg{GapNs: gaps[r.Intn(len(gaps))], Len: r.Pick(8, 8, 20, 200, 1400, 2045, 2046, 2047, 8000, 8191, 8192, 8, 20, 200, 1400, 0), Odd: r.Bool(0.3)})
		}
		if r.Bool(0.12) {
			// two small datagrams and one that ends exactly at the end of the connection's 2 KiB ring
			// (2-byte length prefixes), then more traffic
			a, b := r.Pick(8, 100, 500), r.Pick(8, 100, 300)
			third := 2048 - 6 - a - b
			if r.Bool(0.4) {
				// ... or whose 2-byte length prefix occupies exactly the last two bytes of the ring
				b = 2046 - 4 - a
				third = r.Pick(8, 100, 1000)
			}
			pre := []dg{{GapNs: 0, Len: a}, {GapNs: 0, Len: b}, {GapNs: gaps[r.Intn(len(gaps))], Len: third}}
			plan = append(pre, plan...)
		}
		sc.Remotes = append(sc.Remotes, plan)
	}
	if r.Bool(0.3) {
		sc.ReadGapNs = int64(r.Pick(1, 1000, 100000, 1000000))
	}
	if r.Bool(0.2) {
		sc.ReadBuf = r.Pick(8, 16, 100, 1000)
	}
	sc.BadFirst = r.Bool(0.15)
	sc.NoAccept = prop == "C12" && r.Bool(0.08)
	for i := 0; i < 6; i++ {
		sc.CloseAfter = append(sc.CloseAfter, r.Pick(0, 0, 0, 1, 2, 3))
		t := int64(0)
		if r.Bool(0.15) {
			t = gaps[2+r.Intn(len(gaps)-2)]
		}
		sc.ConnCloseAtNs = append(sc.ConnCloseAtNs, t)
	}
	if r.Bool(0.3) {
		sc.ListenerCloseAtNs = gaps[2+r.Intn(len(gaps)-2)] * int64(r.Pick(1, 2))
		if r.Bool(0.4) {
			// the connections are closed at the very instant the listener is: all Close calls are
			// runnable together
			for i := range sc.ConnCloseAtNs {
				if sc.ConnCloseAtNs[i] > 0 {
					sc.ConnCloseAtNs[i] = sc.ListenerCloseAtNs
				}
			}
		}
	}
	if r.Bool(0.3) {
		sc.AcceptGapNs = gaps[r.Intn(len(gaps))]
	}
	if r.Bool(0.4) {
		sc.DropP = []float64{0, 0.1, 0.3}[r.Intn(3)]
		sc.DupP = []float64{0, 0.1, 0.3}[r.Intn(3)]
		sc.DelayP = []float64{0, 0.2, 0.5}[r.Intn(3)]
		sc.MaxDelayNs = gaps[3+r.Intn(len(gaps)-3)]
	}
	if r.Bool(0.08) {
		sc.ReadErrAtNs = gaps[2+r.Intn(len(gaps)-2)]
	}
	for i := 0; i < 6; i++ {
		t := int64(0)
		if r.Bool(0.2) {
			t = gaps[3+r.Intn(len(gaps)-3)] * int64(r.Pick(1, 2, 3))
		}
		sc.ReCloseAtNs = append(sc.ReCloseAtNs, t)
	}
	sc.DoubleClose = r.Bool(0.3)
	sc.SamePort = r.Bool(0.3)
	if !sc.SamePort && r.Bool(0.12) {
		sc.Zoned = true
	}
	sc.Waiters = r.Pick(0, 0, 0, 1, 2, 3)
	if sc.Batch && r.Bool(0.4) {
		sc.TickClose = true
		sc.TickDeltaNs = int64(r.Pick(0, 0, 1, 100, 1000, -1, -100))
		sc.LastWrite = ""
	}
	if r.Bool(0.15) {
		sc.LastWrite = []string{"oversize", "fail"}[r.Intn(2)]
	}
	return sc
}

type connRec struct {
	idx               int
	conn              net.Conn
	remote            string
	acceptRet         uint64
	reads             [][]byte
	readStamps        []uint64
	closeInv, closeRet uint64
	readErr           error
	reader            *simrt.Handle
}

func payload(remote, seq int, n int, odd bool) []byte {
	if n == 0 {
		return []byte{} // an empty datagram is a datagram
	}
	if n < 8 {
		n = 8
	}
	b := harn.Bytes(uint64(remote*1000+seq)+3, n)
	b[0] = 2
	if odd {
		b[0] = 3
	}
	b[1] = byte(remote)
	binary.BigEndian.PutUint32(b[2:], uint32(seq))
	return b
}

func run(env *simrt.Env, sci interface{}) {
	sc := sci.(*scenario)
	c12 := prop == "C12"
	simnet.Reset(env.Stamp)
	simnet.SetFaults(simnet.Faults{DropP: sc.DropP, DupP: sc.DupP, DelayP: sc.DelayP, MaxDelay: time.Duration(sc.MaxDelayNs)})
	lc := udp.ListenConfig{Backlog: sc.Backlog, ReadBufferSize: sc.SockBuf, WriteBufferSize: sc.SockBuf}
	if sc.Filter {
		lc.AcceptFilter = func(b []byte) bool { return len(b) > 0 && b[0]%2 == 0 }
	}
	if sc.Batch {
		lc.Batch = udp.BatchIOConfig{Enable: true, ReadBatchSize: sc.BatchRead, WriteBatchSize: 2, WriteBatchInterval: time.Hour}
	}
	laddr := &net.UDPAddr{IP: net.IPv4(127, 0, 0, 1), Port: 7000}
	if sc.BadFirst {
		bad := udp.ListenConfig{Backlog: 1, Batch: udp.BatchIOConfig{Enable: true}} // batch sizes and interval missing
		if bl, err := bad.Listen("udp", laddr); err == nil {
			_ = bl.Close()
		} else {
			env.Probe("invalid-config-refused")
		}
	}
	l, err := lc.Listen("udp", laddr)
	if err != nil {
		if sc.BadFirst {
			env.Fail("C12/socket-not-closed", "a Listen with an invalid batch configuration was refused, yet the port is taken afterwards: %v", err)
			return
		}
		env.Infra("Listen: %v", err)
		return
	}
	// the listener owns a copy of its configuration: what the caller does with the value
	// afterwards (reusing it for another listener) changes nothing
	lc.AcceptFilter = func([]byte) bool { return false }
	lc.Backlog = 0
	lc.Batch = udp.BatchIOConfig{}
	lkey := laddr.String()
	var peers []*simnet.UDPConn
	for i := range sc.Remotes {
		p, err := simnet.ListenUDP("udp", peerAddr(sc, i))
		if err != nil {
			env.Infra("peer: %v", err)
			return
		}
		peers = append(peers, p)
	}
	var conns []*connRec
	var listenerCloseInv, listenerCloseRet uint64
	var acceptErrAfterClose error
	acceptorDone := false
	// called by whoever has just returned from a Close: if that was the last one (listener and every
	// accepted connection closed, the acceptor has seen the end, so the list is complete), the
	// shared socket is closed at this very moment, not a little later
	lastCloseReturned := func(who string) {
		if prop != "C12" || sc.ReadErrAtNs > 0 || sc.LastWrite != "" || !acceptorDone || listenerCloseRet == 0 {
			return
		}
		for _, c := range conns {
			if c.closeRet == 0 {
				return
			}
		}
		if simnet.Bound(lkey) {
			env.Fail("C12/socket-not-closed", "%s was the last Close to return (listener and all %d accepted connections are closed, concurrently), yet the shared socket is still open at that moment", who, len(conns))
		} else {
			env.Probe("last-concurrent-close-checked")
		}
	}
	readUntilErr := func(c *connRec) {
		buf := make([]byte, 9000)
		if sc.ReadBuf > 0 {
			buf = make([]byte, sc.ReadBuf)
		}
		for {
			if sc.ReadGapNs > 0 {
				env.Sleep(time.Duration(sc.ReadGapNs))
			}
			env.Enter("conn.Read")
			n, err := c.conn.Read(buf)
			env.Leave()
			if errors.Is(err, io.ErrShortBuffer) && sc.ReadBuf > 0 && n == sc.ReadBuf {
				err = nil // the datagram was longer than the slice: its leading bytes, the rest is dropped
				env.Probe("short-read")
			}
			if err != nil {
				c.readErr = err
				return
			}
			c.reads = append(c.reads, append([]byte(nil), buf[:n]...))
			c.readStamps = append(c.readStamps, env.Stamp())
			k := 0
			if c.idx < len(sc.CloseAfter) {
				k = sc.CloseAfter[c.idx]
			}
			if k > 0 && len(c.reads) == k && c.closeInv == 0 {
				c.closeInv = env.Stamp()
				_ = c.conn.Close()
				c.closeRet = env.Stamp()
				lastCloseReturned(fmt.Sprintf("the Close of connection #%d (by its reader)", c.idx))
			}
		}
	}
	var hs []*simrt.Handle
	if sc.NoAccept {
		acceptorDone = true
	}
	_ = env.Go("acceptor", func() {
		for !sc.NoAccept {
			env.Enter("Accept")
			c, err := l.Accept()
			env.Leave()
			if err != nil {
				if listenerCloseRet != 0 {
					acceptErrAfterClose = err
				}
				acceptorDone = true
				return
			}
			rec := &connRec{idx: len(conns), conn: c, remote: c.RemoteAddr().String(), acceptRet: env.Stamp()}
			conns = append(conns, rec)
			rec.reader = env.Go(fmt.Sprintf("reader%d", rec.idx), func() { readUntilErr(rec) })
			if rec.idx < len(sc.ConnCloseAtNs) && sc.ConnCloseAtNs[rec.idx] > 0 {
				at := time.Duration(sc.ConnCloseAtNs[rec.idx])
				env.Go(fmt.Sprintf("closer%d", rec.idx), func() {
					if d := at - env.Elapsed(); d > 0 {
						env.Sleep(d)
					}
					if rec.closeInv == 0 {
						rec.closeInv = env.Stamp()
						var twin *simrt.Handle
						if sc.DoubleClose {
							twin = env.Go(fmt.Sprintf("closer%db", rec.idx), func() { _ = rec.conn.Close() })
						}
						_ = rec.conn.Close()
						if twin != nil {
							env.Join(twin)
							env.Fault("concurrent-double-close")
						}
						rec.closeRet = env.Stamp()
						lastCloseReturned(fmt.Sprintf("the Close of connection #%d", rec.idx))
						env.Fault("racy-conn-close")
					}
				})
			}
			if rec.idx < len(sc.ReCloseAtNs) && sc.ReCloseAtNs[rec.idx] > 0 {
				at := time.Duration(sc.ReCloseAtNs[rec.idx])
				env.Go(fmt.Sprintf("recloser%d", rec.idx), func() {
					if d := at - env.Elapsed(); d > 0 {
						env.Sleep(d)
					}
					if rec.closeRet != 0 {
						// Close is idempotent: closing a closed connection again changes nothing
						_ = rec.conn.Close()
						env.Fault("repeated-conn-close")
					}
				})
			}
			env.Sleep(time.Duration(sc.AcceptGapNs))
		}
	})
	for i := range sc.Remotes {
		i := i
		hs = append(hs, env.Go(fmt.Sprintf("remote%d", i), func() {
			for seq, d := range sc.Remotes[i] {
				env.Sleep(time.Duration(d.GapNs))
				_, _ = peers[i].WriteTo(payload(i, seq, d.Len, d.Odd), laddr)
			}
		}))
	}
	if sc.ListenerCloseAtNs > 0 {
		hs = append(hs, env.Go("listener-closer", func() {
			env.Sleep(time.Duration(sc.ListenerCloseAtNs))
			listenerCloseInv = env.Stamp()
			_ = l.Close()
			listenerCloseRet = env.Stamp()
			lastCloseReturned("the listener's Close")
			env.Fault("racy-listener-close")
		}))
	}
	if sc.ReadErrAtNs > 0 {
		hs = append(hs, env.Go("socket-fault", func() {
			env.Sleep(time.Duration(sc.ReadErrAtNs))
			// the listener's socket: reach it through a second ListenUDP attempt is not
			// possible, so the stub offers a lookup by address
			simnet.InjectReadError(lkey, simnet.ErrInjected)
		}))
	}
	settle := func() {
		if sc.Batch {
			env.QuiesceWithin(time.Minute) // the batch writer's ticker (period 30 min) never lets the system quiesce completely
		} else {
			env.Quiesce()
		}
	}
	env.Join(hs...)
	settle()
	if env.Failed() {
		return
	}
	racyListener := listenerCloseInv != 0
	socketFault := sc.ReadErrAtNs > 0

	// ---------------- C12: accepted connections keep working after the listener closed
	if c12 && racyListener && !socketFault {
		if !acceptorDone {
			env.Fail("C12/accept-not-released", "Accept is still blocked after the listener's Close returned")
			return
		}
		if acceptErrAfterClose == nil && acceptorDone {
			// the acceptor ended before Close returned: fine
		}
		if _, err := l.Accept(); err == nil {
			env.Fail("C12/accept-after-close", "Accept succeeded after the listener was closed")
			return
		}
		if sc.Batch && sc.DropP == 0 && sc.DelayP == 0 {
			// a full write batch first (it is flushed at once), then a long silence: the partial
			// batches written afterwards must still be flushed by the interval timer
			for _, c := range conns {
				if c.closeInv != 0 {
					continue
				}
				ri := int(c.remoteIndex())
				p1, p2 := []byte{0xA8, byte(c.idx), 1, 2, 3, 4, 5, 6}, []byte{0xA9, byte(c.idx), 1, 2, 3, 4, 5, 6}
				_, e1 := c.conn.Write(p1)
				_, e2 := c.conn.Write(p2)
				env.Sleep(3 * time.Hour)
				settle()
				if e1 == nil && e2 == nil && !(pollFor(peers[ri], p1) && pollFor(peers[ri], p2)) {
					env.Fail("C12/accepted-conn-cannot-send", "two datagrams (a full write batch) written on connection #%d after the listener was closed did not both reach its remote", c.idx)
					return
				}
				env.Probe("full-batch-after-listener-close")
				break
			}
		}
		for _, c := range conns {
			if c.closeInv != 0 {
				continue
			}
			ri := int(c.remoteIndex())
			probe := []byte{0xAA, byte(c.idx), 1, 2, 3, 4, 5, 6}
			if c.idx%2 == 1 {
				// longer than a typical MTU: whatever the connection does with the part beyond it
				probe = append(probe, harn.Bytes(uint64(c.idx)+5, 1800)...)
			}
			// the caller reuses its buffer as soon as Write has returned
			wbuf := append([]byte(nil), probe...)
			_, err := c.conn.Write(wbuf)
			for i := range wbuf {
				wbuf[i] = 0xEE
			}
			if err != nil {
				env.Fail("C12/accepted-conn-cannot-send", "connection #%d (accepted, not closed) failed to Write after the listener was closed: %v", c.idx, err)
				return
			}
			if sc.Batch {
				env.Sleep(2 * time.Hour) // the batch writer flushes at the first tick (period 30 min) that is at least an interval (1 h) after the last flush
			}
			settle() // datagrams may be delayed in flight by the fault plan
			if sc.DropP == 0 && !pollFor(peers[ri], probe) {
				env.Fail("C12/accepted-conn-cannot-send", "a datagram written on connection #%d after the listener was closed never reached its remote", c.idx)
				return
			}
			before := len(c.reads)
			msg := payload(ri, 900+c.idx, 16, false)
			_, _ = peers[ri].WriteTo(msg, laddr)
			settle()
			if sc.DropP == 0 && c.closeInv == 0 && !(len(c.reads) > before && sameDatagram(sc, msg, c.reads[len(c.reads)-1])) {
				env.Fail("C12/accepted-conn-cannot-receive", "a datagram sent to connection #%d after the listener was closed was not read from it (reader error: %v)", c.idx, c.readErr)
				return
			}
			env.Probe("conn-outlives-listener")
		}
		// a burst after the listener closed: datagrams of strangers (refused now) mixed with
		// datagrams for the still open connections, handed to the socket back to back so that
		// a batch read returns them together
		var open []*connRec
		for _, c := range conns {
			if c.closeInv == 0 {
				open = append(open, c)
			}
		}
		if len(open) > 0 && sc.DropP == 0 {
			stranger, err := simnet.ListenUDP("udp", &net.UDPAddr{IP: net.IPv4(127, 0, 0, 1), Port: 7099})
			if err == nil {
				before := make([]int, len(open))
				var msgs [][]byte
				for i, c := range open {
					before[i] = len(c.reads)
					_, _ = stranger.WriteTo(payload(99, 700+i, 16, false), laddr)
					m := payload(c.remoteIndex(), 800+c.idx, 24, false)
					msgs = append(msgs, m)
					_, _ = peers[c.remoteIndex()].WriteTo(m, laddr)
				}
				settle()
				for i, c := range open {
					found := false
					for _, p := range c.reads[before[i]:] {
						if sameDatagram(sc, msgs[i], p) {
							found = true
						}
					}
					if c.closeInv == 0 && !found {
						env.Fail("C12/accepted-conn-cannot-receive", "after the listener was closed, a burst of datagrams from a stranger and from the remote of the open connection #%d was sent; the connection did not receive its datagram (reader error: %v)", c.idx, c.readErr)
						return
					}
				}
				_ = stranger.Close()
				env.Probe("burst-after-listener-close")
			}
		}
	}

	if sc.TickClose {
		const period = 30 * time.Minute
		d := period - env.Elapsed()%period - time.Duration(sc.TickDeltaNs)
		if d > 0 {
			env.Sleep(d)
		}
		for _, c := range conns {
			if c.closeInv == 0 {
				_, _ = c.conn.Write([]byte{0xAC, 1, 2, 3, 4, 5, 6, 7}) // stays queued: the interval is an hour
				break
			}
		}
		env.Fault("close-at-flush-tick")
	}
	if sc.LastWrite != "" {
		for _, c := range conns {
			if c.closeInv != 0 {
				continue
			}
			if sc.LastWrite == "oversize" {
				_, _ = c.conn.Write(make([]byte, simnet.MaxDatagram+1))
			} else {
				simnet.InjectWriteError(lkey, simnet.ErrInjected)
				_, _ = c.conn.Write([]byte{0xAB, 1, 2, 3, 4, 5, 6, 7})
			}
			env.Fault("unsendable-last-write")
			break
		}
	}
	type waiterRec struct {
		h   *simrt.Handle
		idx int
	}
	var waiters []waiterRec
	if sc.Waiters > 0 && !sc.TickClose {
		for _, c := range conns {
			if c.closeInv != 0 {
				continue
			}
			c := c
			for k := 0; k < sc.Waiters; k++ {
				h := env.Go(fmt.Sprintf("waiter%d-%d", c.idx, k), func() {
					buf := make([]byte, 9000)
					for {
						n, err := c.conn.Read(buf)
						if err != nil {
							return
						}
						// nothing is under way any more; should a datagram turn up it counts as read
						c.reads = append(c.reads, append([]byte(nil), buf[:n]...))
						c.readStamps = append(c.readStamps, env.Stamp())
					}
				})
				waiters = append(waiters, waiterRec{h, c.idx})
			}
		}
		if len(waiters) > 0 {
			settle() // all of them are parked inside Read now
			env.Fault("several-readers-blocked-at-close")
		}
	}
	// ---------------- teardown: close everything (idempotently), then the socket must be gone
	teardownStart := env.Stamp()
	if listenerCloseInv == 0 {
		listenerCloseInv = env.Stamp()
		_ = l.Close()
		listenerCloseRet = env.Stamp()
	}
	if err := l.Close(); err != nil && c12 && !socketFault {
		env.Fail("C12/close-not-idempotent", "second listener Close: %v", err)
		return
	}
	for _, c := range conns {
		if c.closeInv == 0 {
			c.closeInv = env.Stamp()
			_ = c.conn.Close()
			c.closeRet = env.Stamp()
		}
		if err := c.conn.Close(); err != nil && c12 && !socketFault {
			env.Fail("C12/close-not-idempotent", "second Close of connection #%d: %v", c.idx, err)
			return
		}
	}
	if c12 && !socketFault && sc.LastWrite == "" && simnet.Bound(lkey) {
		env.Fail("C12/socket-not-closed", "every Close call (listener and %d accepted connections) has returned, yet the shared socket is still open at that moment", len(conns))
		return
	}
	settle()
	if env.Failed() {
		return
	}
	if c12 {
		if !acceptorDone {
			env.Fail("C12/accept-not-released", "Accept still blocked after everything was closed")
			return
		}
		for _, c := range conns {
			if !c.reader.Finished() {
				env.Fail("C12/read-not-released", "Read on connection #%d still blocked after it was closed", c.idx)
				return
			}
		}
		for _, w := range waiters {
			if !w.h.Finished() {
				env.Fail("C12/read-not-released", "connection #%d was closed while %d goroutines were blocked in Read on it; one of them is still blocked", w.idx, sc.Waiters+1)
				return
			}
		}
		var sockCloses []simnet.CloseRecord
		for _, cr := range simnet.Closes() {
			if cr.Sock == lkey {
				sockCloses = append(sockCloses, cr)
			}
		}
		if len(sockCloses) == 0 || simnet.Bound(lkey) {
			env.Fail("C12/socket-not-closed", "the listener and all %d accepted connections are closed but the shared socket is still open (port not reusable)", len(conns))
			return
		}
		if len(sockCloses) > 1 {
			env.Fail("C12/socket-closed-twice", "the shared socket was closed %d times", len(sockCloses))
			return
		}
		st := sockCloses[0].Stamp
		if st < listenerCloseInv {
			env.Fail("C12/socket-closed-early", "the shared socket was closed before the listener's Close was invoked")
			return
		}
		for _, c := range conns {
			if st < c.closeInv {
				env.Fail("C12/socket-closed-early", "the shared socket was closed (event %d) while connection #%d, returned by Accept (event %d), had not been closed yet (Close invoked at event %d; listener Close invoked at event %d)", st, c.idx, c.acceptRet, c.closeInv, listenerCloseInv)
				return
			}
		}
		if p, err := simnet.ListenUDP("udp", laddr); err != nil {
			env.Fail("C12/socket-not-closed", "re-binding the listener's port failed: %v", err)
			return
		} else {
			_ = p.Close()
		}
	}
	for _, p := range peers {
		_ = p.Close()
	}
	if c12 {
		return
	}

	// ---------------- C11: demultiplexing, checked over the socket's read record
	perRemote := map[string][]*arrival{}
	var all []*arrival
	for _, rr := range simnet.Reads() {
		if rr.Sock != lkey {
			continue
		}
		a := &arrival{payload: rr.Payload, stamp: rr.Stamp, next: ^uint64(0), call: rr.Call}
		// the listener dispatches every datagram of one read call before it reads again:
		// the first stamp of the next read call bounds the dispatch of all of them
		for i := len(all) - 1; i >= 0 && all[i].call != rr.Call && all[i].next == ^uint64(0); i-- {
			all[i].next = rr.Stamp
		}
		all = append(all, a)
		perRemote[rr.From] = append(perRemote[rr.From], a)
	}
	type block struct{ start, end int }
	byRemote := map[string][]*connRec{}
	for _, c := range conns {
		byRemote[c.remote] = append(byRemote[c.remote], c)
		for _, p := range c.reads {
			if len(p) >= 2 && peerAddr(sc, int(p[1])).String() != c.remote {
				env.Fail("C11/wrong-connection", "connection #%d (remote %s) returned a datagram sent by remote %s", c.idx, c.remote, peerAddr(sc, int(p[1])))
				return
			}
		}
	}
	var remoteAddrs []string
	for k := range perRemote {
		remoteAddrs = append(remoteAddrs, k)
	}
	for k := range byRemote {
		if _, ok := perRemote[k]; !ok {
			remoteAddrs = append(remoteAddrs, k)
		}
	}
	sort.Strings(remoteAddrs)
	matches := func(ar []*arrival, c *connRec, i int) bool {
		if i+len(c.reads) > len(ar) {
			return false
		}
		for k, p := range c.reads {
			if !sameDatagram(sc, ar[i+k].payload, p) {
				return false
			}
		}
		return true
	}
	// earliest possible creation stamp of every connection (used for the backlog estimate)
	earliest := map[*connRec]uint64{}
	for _, rk := range remoteAddrs {
		ar := perRemote[rk]
		cursor := 0
		for _, c := range byRemote[rk] {
			if len(c.reads) == 0 {
				continue
			}
			for i := cursor; i < len(ar); i++ {
				if matches(ar, c, i) {
					earliest[c] = ar[i].stamp
					cursor = i + len(c.reads)
					break
				}
			}
		}
	}
	// remotes whose datagrams are not all accounted for by accepted connections may have a
	// connection that sat in the backlog and was discarded when the listener closed
	readTags := map[string]bool{}
	for _, c := range conns {
		for _, p := range c.reads {
			readTags[tagKey(p)] = true
		}
	}
	backlogMaybeFull := func(a *arrival, self string) bool {
		n := 0
		for _, c := range conns {
			if earliest[c] < a.next && c.acceptRet > a.stamp {
				n++
			}
		}
		if racyListener {
			for _, rk := range remoteAddrs {
				if rk == self {
					continue
				}
				for _, o := range perRemote[rk] {
					if o.stamp < a.next && !readTags[tagKey(o.payload)] {
						n++ // possibly an unaccepted connection of that remote
						break
					}
				}
			}
		}
		return n >= sc.Backlog
	}
	// evaluate one assignment of read runs to arrival positions for one remote
	evaluate := func(rk string, blocks map[*connRec]*block) (class, detail string, probes []string) {
		ar := perRemote[rk]
		cs := byRemote[rk]
		used := make([]bool, len(ar))
		for _, c := range cs {
			if b := blocks[c]; b != nil {
				for i := b.start; i < b.end; i++ {
					used[i] = true
				}
			}
		}
		for i := 0; i+1 < len(cs); i++ {
			b2 := blocks[cs[i+1]]
			if b2 == nil {
				continue
			}
			creating := ar[b2.start]
			if cs[i].closeInv == 0 || creating.next < cs[i].closeInv {
				return "C11/second-connection-while-open", fmt.Sprintf("connection #%d for remote %s was created (its first datagram was dispatched before event %d) while connection #%d for the same remote was still open (Close invoked at event %d); %s", cs[i+1].idx, rk, creating.next, cs[i].idx, cs[i].closeInv, connsDesc(cs)), nil
			}
		}
		for j, a := range ar {
			if used[j] {
				continue
			}
			explained := ""
			definitelyOpen := false
			for _, c := range cs {
				b := blocks[c]
				createdBefore := b == nil || ar[b.start].stamp <= a.stamp
				afterBlock := b == nil || j >= b.end
				closedLater := c.closeInv != 0 && c.closeInv < teardownStart && a.stamp < c.closeRet
				if createdBefore && afterBlock && closedLater {
					explained = "unread when its connection was closed"
				}
				if b != nil && ar[b.start].stamp < a.stamp && c.closeInv > a.next {
					definitelyOpen = true
				}
				if b == nil && c.acceptRet < a.stamp && c.closeInv > a.next {
					definitelyOpen = true
				}
			}
			if explained == "" && !definitelyOpen {
				switch {
				case sc.Filter && (len(a.payload) == 0 || a.payload[0]%2 == 1):
					explained = "refused by the accept filter"
				case backlogMaybeFull(a, rk):
					explained = "backlog full"
				case racyListener && listenerCloseInv < a.next:
					explained = "listener closing"
				case racyListener:
					acceptedLater := false
					for _, c := range cs {
						if c.acceptRet > a.stamp {
							acceptedLater = true
						}
					}
					if !acceptedLater {
						explained = "created a connection nobody accepted before the listener closed"
					}
				}
			}
			if explained == "" && socketFault {
				explained = "socket read error"
			}
			if explained == "" {
				return "C11/datagram-lost", fmt.Sprintf("datagram %s from %s was received by the socket (event %d) but never read from a connection of that remote, and nothing explains it (filter=%v backlog=%d, open connection at that time: %v, racy listener close: %v); all from this remote: %s; connections of this remote: %s", tag(a.payload), rk, a.stamp, sc.Filter, sc.Backlog, definitelyOpen, racyListener, tagsA(ar), connsDesc(cs)), nil
			}
			probes = append(probes, "explained:"+explained)
		}
		return "", "", probes
	}
	for _, rk := range remoteAddrs {
		ar := perRemote[rk]
		cs := byRemote[rk]
		// duplicated datagrams make the position of a read run ambiguous: try the
		// candidate assignments (bounded) and accept if one of them is consistent
		var firstClass, firstDetail string
		var okProbes []string
		found := false
		tries := 0
		blocks := map[*connRec]*block{}
		var rec func(k, cursor int) bool
		rec = func(k, cursor int) bool {
			if tries > 300 {
				return false
			}
			if k == len(cs) {
				tries++
				class, detail, probes := evaluate(rk, blocks)
				if class == "" {
					okProbes = probes
					return true
				}
				if firstClass == "" {
					firstClass, firstDetail = class, detail
				}
				return false
			}
			c := cs[k]
			if len(c.reads) == 0 {
				blocks[c] = nil
				return rec(k+1, cursor)
			}
			any := false
			for i := cursor; i+len(c.reads) <= len(ar); i++ {
				if !matches(ar, c, i) {
					continue
				}
				any = true
				blocks[c] = &block{i, i + len(c.reads)}
				if rec(k+1, i+len(c.reads)) {
					return true
				}
			}
			if !any && firstClass == "" {
				firstClass = "C11/not-arrival-order"
				firstDetail = fmt.Sprintf("the %d datagrams read from connection #%d (remote %s) are not a contiguous, in-order, unmodified run of the datagrams the socket received from that remote after the previous connection's: read %s; received from the remote %s", len(c.reads), c.idx, c.remote, tags(c.reads), tagsA(ar))
			}
			return false
		}
		found = rec(0, 0)
		if !found {
			if firstClass == "" {
				firstClass, firstDetail = "C11/not-arrival-order", "no consistent assignment of the reads of remote "+rk+" to its arrivals"
			}
			env.Fail(firstClass, "%s", firstDetail)
			return
		}
		for _, p := range okProbes {
			env.Probe(p)
		}
	}
	if len(conns) >= 2 {
		env.Probe("conns>=2")
	}
}

func connsDesc(cs []*connRec) string {
	s := ""
	for _, c := range cs {
		s += fmt.Sprintf("{#%d accepted@%d read %s@%v close[%d,%d] err=%v} ", c.idx, c.acceptRet, tags(c.reads), c.readStamps, c.closeInv, c.closeRet, c.readErr)
	}
	return s
}

func (c *connRec) remoteIndex() int {
	a := c.conn.RemoteAddr().(*net.UDPAddr)
	if a.Port == 7001 && a.IP.To4() != nil && a.IP.To4()[2] == 7 {
		return int(a.IP.To4()[1])
	}
	return a.Port - 7001
}

// sameDatagram: what a reader got is the datagram, or - with short reader slices - its leading bytes.
func sameDatagram(sc *scenario, payload, read []byte) bool {
	if sc.ReadBuf > 0 && len(payload) > sc.ReadBuf {
		return bytes.Equal(payload[:sc.ReadBuf], read)
	}
	return bytes.Equal(payload, read)
}

// tagKey identifies a datagram by its leading bytes (flag, remote, sequence number).
func tagKey(p []byte) string {
	if len(p) > 8 {
		return string(p[:8])
	}
	return string(p)
}

// peerAddr is the address of remote #i.
func peerAddr(sc *scenario, i int) *net.UDPAddr {
	if sc.SamePort {
		return &net.UDPAddr{IP: net.IPv4(127, byte(i), 7, 9), Port: 7001}
	}
	if sc.Zoned {
		return &net.UDPAddr{IP: net.ParseIP("fe80::1"), Port: 7001 + i, Zone: "eth0"}
	}
	return &net.UDPAddr{IP: net.IPv4(127, 0, 0, 1), Port: 7001 + i}
}

func pollFor(p *simnet.UDPConn, want []byte) bool {
	_ = p.SetReadDeadline(time.Unix(0, 1))
	buf := make([]byte, 9000)
	for {
		n, _, err := p.ReadFrom(buf)
		if err != nil {
			return false
		}
		if bytes.Equal(buf[:n], want) {
			return true
		}
	}
}

func tag(p []byte) string {
	if len(p) >= 6 {
		return fmt.Sprintf("r%d#%d(%dB)", p[1], binary.BigEndian.Uint32(p[2:]), len(p))
	}
	return fmt.Sprintf("?(%dB)", len(p))
}

func tags(ps [][]byte) string {
	s := "["
	for i, p := range ps {
		if i > 0 {
			s += " "
		}
		s += tag(p)
	}
	return s + "]"
}

type arrival struct {
	payload []byte
	stamp   uint64
	next    uint64 // stamp of the following read of the listener socket
	used    bool
	call    int
}

func tagsA(as []*arrival) string {
	s := "["
	for i, a := range as {
		if i > 0 {
			s += " "
		}
		s += tag(a.payload)
		if a.used {
			s += "*"
		}
	}
	return s + "]"
}

var _ = errors.New

func shrinkSc(sci interface{}) []interface{} {
	sc := sci.(*scenario)
	var out []interface{}
	for i := range sc.Remotes {
		if len(sc.Remotes) > 1 {
			c := *sc
			c.Remotes = append(append([][]dg(nil), sc.Remotes[:i]...), sc.Remotes[i+1:]...)
			out = append(out, &c)
		}
		for j := range sc.Remotes[i] {
			if len(sc.Remotes[i]) > 1 {
				c := *sc
				c.Remotes = append([][]dg(nil), sc.Remotes...)
				c.Remotes[i] = append(append([]dg(nil), sc.Remotes[i][:j]...), sc.Remotes[i][j+1:]...)
				out = append(out, &c)
			}
			if sc.Remotes[i][j].Len > 8 {
				c := *sc
				c.Remotes = append([][]dg(nil), sc.Remotes...)
				c.Remotes[i] = append([]dg(nil), sc.Remotes[i]...)
				c.Remotes[i][j].Len = 8
				out = append(out, &c)
			}
			if sc.Remotes[i][j].GapNs > 0 {
				c := *sc
				c.Remotes = append([][]dg(nil), sc.Remotes...)
				c.Remotes[i] = append([]dg(nil), sc.Remotes[i]...)
				c.Remotes[i][j].GapNs = 0
				out = append(out, &c)
			}
		}
	}
	if sc.DropP != 0 || sc.DupP != 0 || sc.DelayP != 0 {
		c := *sc
		c.DropP, c.DupP, c.DelayP = 0, 0, 0
		out = append(out, &c)
	}
	if sc.Batch {
		c := *sc
		c.Batch = false
		out = append(out, &c)
	}
	if sc.Filter {
		c := *sc
		c.Filter = false
		out = append(out, &c)
	}
	if sc.ListenerCloseAtNs != 0 {
		c := *sc
		c.ListenerCloseAtNs = 0
		out = append(out, &c)
	}
	if sc.ReadErrAtNs != 0 {
		c := *sc
		c.ReadErrAtNs = 0
		out = append(out, &c)
	}
	if sc.AcceptGapNs != 0 {
		c := *sc
		c.AcceptGapNs = 0
		out = append(out, &c)
	}
	for i, k := range sc.CloseAfter {
		if k != 0 {
			c := *sc
			c.CloseAfter = append([]int(nil), sc.CloseAfter...)
			c.CloseAfter[i] = 0
			out = append(out, &c)
		}
	}
	for i, k := range sc.ConnCloseAtNs {
		if k != 0 {
			c := *sc
			c.ConnCloseAtNs = append([]int64(nil), sc.ConnCloseAtNs...)
			c.ConnCloseAtNs[i] = 0
			out = append(out, &c)
		}
	}
	for i, k := range sc.ReCloseAtNs {
		if k != 0 {
			c := *sc
			c.ReCloseAtNs = append([]int64(nil), sc.ReCloseAtNs...)
			c.ReCloseAtNs[i] = 0
			out = append(out, &c)
		}
	}
	return out
}

func TestSim(t *testing.T) {
	harn.Main(t, &harn.Spec{
		ID: prop, Gen: gen, New: func() interface{} { return &scenario{} }, Run: run, Shrink: shrinkSc,
		LeakOK: prop == "C11",
	})
}
