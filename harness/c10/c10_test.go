// C10 — read deadlines: no early or spurious timeout; expiry persists until reset.
package c10

import (
	"context"
	"errors"
	"fmt"
	"io"
	"net"
	"os"
	"testing"
	"time"

	"github.com/pion/logging"
	"github.com/pion/transport/v3/dpipe"
	"github.com/pion/transport/v3/packetio"
	bridge "github.com/pion/transport/v3/test"
	"github.com/pion/transport/v3/udp"
	"github.com/pion/transport/v3/vnet"
	"github.com/pion/transport/v3/zzverif/harn"
	"github.com/pion/transport/v3/zzverif/simnet"
	"github.com/pion/transport/v3/zzverif/simrt"
)

type setOp struct {
	SleepNs int64  `json:"sleepNs"`
	Kind    string `json:"kind"` // zero | past | future | same (the value of an earlier Set again) | epoch (a fixed instant long ago)
	DurNs   int64  `json:"durNs"`
	Ref     int    `json:"ref,omitempty"`
	Both    bool   `json:"both"` // SetDeadline instead of SetReadDeadline
	WriteOnly bool `json:"writeOnly,omitempty"` // SetWriteDeadline: says nothing about reads
}

type readOp struct {
	SleepNs int64 `json:"sleepNs"`
	Zero    bool  `json:"zero,omitempty"` // read into a zero-length slice (buffer, udp, vnet kinds)
}

type writeOp struct {
	SleepNs int64 `json:"sleepNs"`
	Len     int   `json:"len"`
	Foreign bool  `json:"foreign,omitempty"` // vnetdial: sent by a third party (a connected socket discards it)
}

type scenario struct {
	Conn   string    `json:"conn"` // buffer | dpipe | udp | vnet | bridge | vnetdial (a connected vnet socket)
	CloseFuture bool `json:"closeFuture,omitempty"` // closeThen: the deadline is a near future one when the connection is closed and passes afterwards
	CloseThen bool   `json:"closeThen,omitempty"` // buffer, udp: at the end the deadline is set to the past, the connection closed, the deadline cleared: reads must not time out any more
	Interrupt int    `json:"interrupt,omitempty"` // a read still blocked at the end is interrupted: deadline set to the past and at once moved on (1: cleared, 2: an hour ahead)
	Sets   []setOp   `json:"sets"`
	Sets2  []setOp   `json:"sets2,omitempty"` // a second worker setting deadlines concurrently
	Reads  []readOp  `json:"reads"`
	Reads2 []readOp  `json:"reads2,omitempty"` // a second goroutine reading from the same connection
	Writes []writeOp `json:"writes"`
}

var kinds = []string{"buffer", "dpipe", "udp", "vnet", "bridge", "vnetdial"}

var durs = []int64{1000, 100000, 1000000, 5000000, 20000000}

func gen(r *harn.Rng, tier string) interface{} {
	sc := &scenario{Conn: kinds[r.Intn(len(kinds))]}
	if k := os.Getenv("VERIF_C10_CONN"); k != "" {
		sc.Conn = k
	}
	sl := func() int64 {
		switch r.Intn(5) {
		case 0, 1:
			return 0
		case 2:
			return durs[r.Intn(len(durs))] + int64(r.Pick(-1, 0, 1))
		case 3:
			return durs[r.Intn(len(durs))] * 2
		}
		return int64(r.Intn(3000000))
	}
	for i, n := 0, r.Range(1, 5); i < n; i++ {
		op := setOp{SleepNs: sl(), Both: r.Bool(0.3)}
		if i > 0 && sc.Sets[i-1].Kind == "future" && sc.Sets[i-1].DurNs < int64(time.Second) && r.Bool(0.35) {
			// set again at the very instant the previous deadline expires (its timer callback and
			// this call are then runnable together)
			op.SleepNs = sc.Sets[i-1].DurNs + int64(r.Pick(0, 0, 0, -1, 1))
		}
		switch r.Intn(10) {
		case 8:
			op.Kind, op.Ref = "same", r.Intn(4)
		case 9:
			op.Kind, op.Ref = "epoch", r.Intn(2)
		case 0:
			op.Kind = "zero"
		case 1:
			op.Kind, op.DurNs = "past", durs[r.Intn(len(durs))]
		case 2:
			op.Kind, op.DurNs = "future", int64(time.Hour)
		default:
			op.Kind, op.DurNs = "future", durs[r.Intn(len(durs))]
		}
		if i > 0 && (sc.Sets[len(sc.Sets)-1].Kind == "past" || sc.Sets[len(sc.Sets)-1].Kind == "epoch") && r.Bool(0.3) {
			// a passed deadline replaced by another passed one while reads are under way: there is no
			// instant at which a read may get through
			op.Kind, op.DurNs, op.SleepNs = "past", durs[r.Intn(len(durs))], int64(r.Pick(0, 0, 1000))
		}
		sc.Sets = append(sc.Sets, op)
		if r.Bool(0.15) {
			// the other direction's deadline is set or cleared in between
			sc.Sets = append(sc.Sets, setOp{Kind: []string{"zero", "zero", "past", "future"}[r.Intn(4)], DurNs: durs[r.Intn(len(durs))], WriteOnly: true})
		}
	}
	if r.Bool(0.2) {
		for i, n := 0, r.Range(1, 3); i < n; i++ {
			op := setOp{SleepNs: sl(), Both: r.Bool(0.3)}
			switch r.Intn(5) {
			case 0:
				op.Kind = "zero"
			case 1:
				op.Kind, op.DurNs = "past", durs[r.Intn(len(durs))]
			case 2:
				op.Kind, op.DurNs = "future", int64(time.Hour)
			default:
				op.Kind, op.DurNs = "future", durs[r.Intn(len(durs))]
			}
			sc.Sets2 = append(sc.Sets2, op)
		}
	}
	zeroOK := sc.Conn == "buffer" || sc.Conn == "udp" || sc.Conn == "vnet" || sc.Conn == "vnetdial"
	for i, n := 0, r.Range(1, 5); i < n; i++ {
		sc.Reads = append(sc.Reads, readOp{SleepNs: sl(), Zero: zeroOK && r.Bool(0.1)})
	}
	if r.Bool(0.25) {
		for i, n := 0, r.Range(1, 3); i < n; i++ {
			sc.Reads2 = append(sc.Reads2, readOp{SleepNs: sl()})
		}
	}
	for i, n := 0, r.Range(0, 3); i < n; i++ {
		sc.Writes = append(sc.Writes, writeOp{SleepNs: sl(), Len: r.Pick(4, 100, 1000), Foreign: sc.Conn == "vnetdial" && r.Bool(0.5)})
	}
	sc.CloseThen = (sc.Conn == "buffer" || sc.Conn == "udp" || sc.Conn == "bridge" || sc.Conn == "vnet" || sc.Conn == "vnetdial") && r.Bool(0.3)
	sc.CloseFuture = r.Bool(0.5)
	if r.Bool(0.4) {
		sc.Interrupt = r.Range(1, 2)
	}
	return sc
}

// conn is the common shape of the five connection types.
type conn struct {
	read        func(b []byte) (int, error)
	setRead     func(t time.Time) error
	setBoth     func(t time.Time) error
	setWrite    func(t time.Time) error // nil: the type has no write deadline
	write       func(b []byte) error // makes one datagram arrive at the reading side
	writeForeign func(b []byte) error // vnetdial: a datagram from a third party
	closeRead   func()               // closes the reading side
	teardown    func()
	background  []*simrt.Handle
}

func isTimeout(err error) bool {
	var ne net.Error
	if errors.As(err, &ne) && ne.Timeout() {
		return true
	}
	return errors.Is(err, context.DeadlineExceeded) || errors.Is(err, os.ErrDeadlineExceeded)
}

func open(env *simrt.Env, kind string) *conn {
	switch kind {
	case "buffer":
		b := packetio.NewBuffer()
		return &conn{
			read: b.Read, setRead: b.SetReadDeadline, setBoth: b.SetReadDeadline,
			write:    func(p []byte) error { _, err := b.Write(p); return err },
			teardown: func() { _ = b.Close() }, closeRead: func() { _ = b.Close() },
		}
	case "dpipe":
		a, b := dpipe.Pipe()
		return &conn{
			read: a.Read, setRead: a.SetReadDeadline, setBoth: a.SetDeadline, setWrite: a.SetWriteDeadline,
			write:    func(p []byte) error { _, err := b.Write(p); return err },
			teardown: func() { _ = a.Close(); _ = b.Close() },
		}
	case "udp":
		simnet.Reset(env.Stamp)
		l, err := udp.Listen("udp", &net.UDPAddr{IP: net.IPv4(127, 0, 0, 1), Port: 7000})
		if err != nil {
			env.Infra("udp.Listen: %v", err)
			return nil
		}
		peer, err := simnet.ListenUDP("udp", &net.UDPAddr{IP: net.IPv4(127, 0, 0, 1), Port: 7001})
		if err != nil {
			env.Infra("peer: %v", err)
			return nil
		}
		if _, err := peer.WriteTo([]byte("hello"), l.Addr()); err != nil {
			env.Infra("peer write: %v", err)
			return nil
		}
		c, err := l.Accept()
		if err != nil {
			env.Infra("Accept: %v", err)
			return nil
		}
		buf := make([]byte, 100)
		if n, err := c.Read(buf); err != nil || n != 5 {
			env.Infra("first read: %d %v", n, err)
			return nil
		}
		return &conn{
			read: c.Read, setRead: c.SetReadDeadline, setBoth: c.SetDeadline, setWrite: c.SetWriteDeadline,
			write:    func(p []byte) error { _, err := peer.WriteTo(p, l.Addr()); return err },
			teardown: func() { _ = c.Close(); _ = l.Close(); _ = peer.Close() }, closeRead: func() { _ = c.Close() },
		}
	case "vnet", "vnetdial":
		lf := logging.NewDefaultLoggerFactory()
		lf.DefaultLogLevel = logging.LogLevelDisabled
		wan, err := vnet.NewRouter(&vnet.RouterConfig{CIDR: "10.0.0.0/24", LoggerFactory: lf})
		if err != nil {
			env.Infra("NewRouter: %v", err)
			return nil
		}
		mk := func(ip string) *vnet.Net {
			n, err := vnet.NewNet(&vnet.NetConfig{StaticIPs: []string{ip}})
			if err != nil {
				env.Infra("NewNet: %v", err)
				return nil
			}
			if err := wan.AddNet(n); err != nil {
				env.Infra("AddNet: %v", err)
				return nil
			}
			return n
		}
		n1, n2 := mk("10.0.0.1"), mk("10.0.0.2")
		if n1 == nil || n2 == nil {
			return nil
		}
		var c1 interface {
			Read([]byte) (int, error)
			SetReadDeadline(time.Time) error
			SetDeadline(time.Time) error
			SetWriteDeadline(time.Time) error
			Close() error
		}
		var err1 error
		if kind == "vnetdial" {
			c1, err1 = n1.DialUDP("udp", &net.UDPAddr{IP: net.ParseIP("10.0.0.1"), Port: 4000}, &net.UDPAddr{IP: net.ParseIP("10.0.0.2"), Port: 4000})
		} else {
			c1, err1 = n1.ListenUDP("udp", &net.UDPAddr{IP: net.ParseIP("10.0.0.1"), Port: 4000})
		}
		c2, err2 := n2.ListenUDP("udp", &net.UDPAddr{IP: net.ParseIP("10.0.0.2"), Port: 4000})
		if err1 != nil || err2 != nil {
			env.Infra("ListenUDP: %v %v", err1, err2)
			return nil
		}
		n3 := mk("10.0.0.3")
		if n3 == nil {
			return nil
		}
		c3, err3 := n3.ListenUDP("udp", &net.UDPAddr{IP: net.ParseIP("10.0.0.3"), Port: 4000})
		if err3 != nil {
			env.Infra("ListenUDP: %v", err3)
			return nil
		}
		if err := wan.Start(); err != nil {
			env.Infra("Start: %v", err)
			return nil
		}
		return &conn{
			read: c1.Read, setRead: c1.SetReadDeadline, setBoth: c1.SetDeadline, setWrite: c1.SetWriteDeadline,
			closeRead: func() { _ = c1.Close() },
			write: func(p []byte) error {
				_, err := c2.WriteTo(p, &net.UDPAddr{IP: net.ParseIP("10.0.0.1"), Port: 4000})
				return err
			},
			writeForeign: func(p []byte) error {
				_, err := c3.WriteTo(p, &net.UDPAddr{IP: net.ParseIP("10.0.0.1"), Port: 4000})
				return err
			},
			teardown: func() { _ = c1.Close(); _ = c2.Close(); _ = c3.Close(); _ = wan.Stop() },
		}
	case "bridge":
		br := bridge.NewBridge()
		c0, c1 := br.GetConn0(), br.GetConn1()
		stop := false
		ticker := env.Go("ticker", func() {
			for !stop {
				env.Sleep(50 * time.Microsecond)
				br.Tick()
			}
		})
		return &conn{
			read: c0.Read, setRead: c0.SetReadDeadline, setBoth: c0.SetDeadline, setWrite: c0.SetWriteDeadline,
			write: func(p []byte) error { _, err := c1.Write(p); return err },
			closeRead: func() {
				_ = c0.Close()
				env.Sleep(500 * time.Microsecond) // the ticker closes the endpoint's channel once its queue is empty
			},
			teardown: func() {
				_ = c0.Close()
				_ = c1.Close()
				for i := 0; i < 3; i++ {
					br.Tick()
				}
				stop = true
			},
			background: []*simrt.Handle{ticker},
		}
	}
	return nil
}

type setRec struct {
	val      time.Time
	past     bool // the deadline was already in the past when it was set
	inv, ret uint64
}

type readRec struct {
	tInv, tRet time.Time
	inv, ret   uint64
	n          int
	err        error
	done       bool
	cut        bool // zero-length slice: the datagram was consumed and reported with a short-buffer error
}

func run(env *simrt.Env, sci interface{}) {
	sc := sci.(*scenario)
	c := open(env, sc.Conn)
	if c == nil {
		return
	}
	var sets []*setRec
	var reads []*readRec // in the order of invocation
	var extra []*simrt.Handle // readers started for the interrupt epilogue
	var hs []*simrt.Handle
	setter := func(ops []setOp) func() {
		return func() {
			for _, o := range ops {
				env.Sleep(time.Duration(o.SleepNs))
				var v time.Time
				switch o.Kind {
				case "past":
					v = env.Now().Add(-time.Duration(o.DurNs))
				case "future":
					v = env.Now().Add(time.Duration(o.DurNs))
				case "epoch":
					v = time.Unix(0, int64(o.Ref%2)) // 1970-01-01 00:00:00 exactly, or a nanosecond later: long past, not "none"
				case "same":
					var prev []time.Time
					for _, s := range sets {
						if !s.val.IsZero() {
							prev = append(prev, s.val)
						}
					}
					if len(prev) > 0 {
						v = prev[o.Ref%len(prev)]
					} else {
						v = env.Now().Add(time.Millisecond)
					}
				}
				if o.WriteOnly {
					if c.setWrite != nil {
						if err := c.setWrite(v); err != nil {
							env.Fail("C10/set-deadline-error", "%s: setting the write deadline failed: %v", sc.Conn, err)
							return
						}
						env.Probe("write-deadline-touched")
					}
					continue
				}
				rec := &setRec{val: v, past: o.Kind == "past" || o.Kind == "epoch" || (o.Kind == "same" && !v.After(env.Now())), inv: env.Stamp()}
				sets = append(sets, rec)
				var err error
				if o.Both {
					err = c.setBoth(v)
				} else {
					err = c.setRead(v)
				}
				rec.ret = env.Stamp()
				if err != nil {
					env.Fail("C10/set-deadline-error", "%s: setting the deadline failed: %v", sc.Conn, err)
					return
				}
			}
		}
	}
	hs = append(hs, env.Go("setter", setter(sc.Sets)))
	if len(sc.Sets2) > 0 {
		hs = append(hs, env.Go("setter2", setter(sc.Sets2)))
	}
	reader := func(ops []readOp) func() {
		return func() {
			buf := make([]byte, 2048)
			for _, o := range ops {
				env.Sleep(time.Duration(o.SleepNs))
				r := &readRec{tInv: env.Now(), inv: env.Stamp()}
				reads = append(reads, r)
				rb := buf
				if o.Zero {
					rb = buf[:0]
				}
				env.Enter("Read")
				r.n, r.err = c.read(rb)
				if o.Zero && r.n == 0 && errors.Is(r.err, io.ErrShortBuffer) {
					r.err, r.cut = nil, true // a datagram was consumed; none of its bytes fit
				}
				env.Leave()
				r.tRet = env.Now()
				r.ret = env.Stamp()
				r.done = true
			}
		}
	}
	readerH := env.Go("reader", reader(sc.Reads))
	var reader2H *simrt.Handle
	if len(sc.Reads2) > 0 {
		reader2H = env.Go("reader2", reader(sc.Reads2))
	}
	hs = append(hs, env.Go("writer", func() {
		for _, o := range sc.Writes {
			env.Sleep(time.Duration(o.SleepNs))
			w := c.write
			if o.Foreign && c.writeForeign != nil {
				w = c.writeForeign
			}
			if err := w(harn.Bytes(uint64(o.Len), o.Len)); err != nil {
				env.Fail("C10/write-error", "%s: write failed: %v", sc.Conn, err)
				return
			}
		}
	}))
	env.Join(hs...)
	if sc.Conn == "bridge" {
		env.Idle(10 * time.Millisecond) // let the ticker hand queued messages over
	} else {
		env.Quiesce()
	}
	if env.Failed() {
		return
	}
	// in force during a read: the last Set completed before its invocation plus every
	// Set overlapping it
	// possiblyLast: the Sets completed before event `before` that no other Set, begun after
	// they returned and completed before `before`, has certainly replaced (with two setters
	// overlapping Sets leave more than one)
	possiblyLast := func(before uint64) (idx []int) {
		for i, s := range sets {
			if s.ret == 0 || s.ret >= before {
				continue
			}
			replaced := false
			for _, t := range sets {
				if t != s && t.inv > s.ret && t.ret != 0 && t.ret < before {
					replaced = true
				}
			}
			if !replaced {
				idx = append(idx, i)
			}
		}
		return
	}
	inForce := func(r *readRec) (vals []time.Time, overlapping bool) {
		cand := possiblyLast(r.inv)
		isCand := map[int]bool{}
		for _, i := range cand {
			vals = append(vals, sets[i].val)
			isCand[i] = true
		}
		if len(cand) == 0 {
			vals = append(vals, time.Time{})
		}
		if len(cand) > 1 {
			overlapping = true // which of them is in force is not determined
		}
		end := r.ret
		if !r.done {
			end = ^uint64(0)
		}
		for i, s := range sets {
			if !isCand[i] && s.inv < end && (s.ret == 0 || s.ret > r.inv) {
				vals = append(vals, s.val)
				overlapping = true
			}
		}
		return
	}
	rel := func(t time.Time) string {
		if t.IsZero() {
			return "none"
		}
		return t.Sub(env.Start()).String()
	}
	relAll := func(ts []time.Time) (out []string) {
		for _, t := range ts {
			out = append(out, rel(t))
		}
		return
	}
	nData := 0
	// index of the governing Set -> when the first read that timed out under it returned (with two
	// readers only a read invoked after that moment is known to have started with the deadline passed)
	firstTimeoutUnder := map[int]uint64{}
	for _, r := range reads {
		if r == nil || !r.done || !isTimeout(r.err) {
			continue
		}
		if c := possiblyLast(r.inv); len(c) == 1 {
			if _, overlapping := inForce(r); !overlapping {
				if at, ok := firstTimeoutUnder[c[0]]; !ok || r.ret < at {
					firstTimeoutUnder[c[0]] = r.ret
				}
			}
		}
	}
	sawTimeoutUnder := map[int]bool{}
	for i, r := range reads {
		if r == nil {
			continue
		}
		vals, overlapping := inForce(r)
		gov := -1
		if c := possiblyLast(r.inv); len(c) == 1 {
			gov = c[0]
		}
		if !r.done {
			// liveness at quiescence: every timer has fired; a read still blocked under a
			// non-zero deadline should have been released (the bridge case does not quiesce)
			// every Set has completed by now; the one(s) nothing replaced rule. If each of them is
			// a non-zero time (all passed at quiescence) the read must have been released
			lastSet := time.Time{}
			final := possiblyLast(^uint64(0))
			allNonZero := len(final) > 0
			for _, i := range final {
				if sets[i].val.IsZero() {
					allNonZero = false
				}
				lastSet = sets[i].val
			}
			if sc.Conn != "bridge" && allNonZero {
				env.Fail("C10/blocked-past-deadline", "%s: read #%d (invoked at %s) is still blocked at quiescence although the deadline in force (%s, the last one set) has passed", sc.Conn, i, rel(r.tInv), rel(lastSet))
				return
			}
			_ = overlapping
			continue
		}
		if isTimeout(r.err) {
			ok := false
			for _, v := range vals {
				if !v.IsZero() && !v.After(r.tRet) {
					ok = true
				}
			}
			if !ok {
				env.Fail("C10/spurious-timeout", "%s: read #%d [%s, %s] failed with a timeout (%v) but no deadline in force had passed: in force %v", sc.Conn, i, rel(r.tInv), rel(r.tRet), r.err, relAll(vals))
				return
			}
			env.Probe("timeout")
			continue
		}
		// the read returned data (or a non-timeout error)
		if r.err == nil {
			env.Probe("data")
			okLen := r.cut
			nWrites := 0
			for _, o := range sc.Writes {
				if o.Foreign {
					continue // a connected socket never surfaces what a third party sent
				}
				nWrites++
				if o.Len == r.n {
					okLen = true
				}
			}
			nData++
			if !okLen || nData > nWrites {
				env.Fail("C10/read-without-data", "%s: read #%d [%s, %s] returned (%d, nil) although no such datagram was waiting (%d reads have succeeded, %d datagrams were written): a read is released by data or by a timeout error, nothing else", sc.Conn, i, rel(r.tInv), rel(r.tRet), r.n, nData, len(sc.Writes))
				return
			}
		}
		if overlapping {
			// Sets ran while the read was under way: which of them ruled is not determined, but when
			// every candidate (the last completed ones and all overlapping ones) put the deadline
			// in the past, the deadline had passed at every instant of the read
			cands := possiblyLast(r.inv)
			isCand := map[int]bool{}
			for _, ci := range cands {
				isCand[ci] = true
			}
			for si, st := range sets {
				if !isCand[si] && st.inv < r.ret && (st.ret == 0 || st.ret > r.inv) {
					cands = append(cands, si)
				}
			}
			allPast := len(possiblyLast(r.inv)) > 0
			for _, ci := range cands {
				if !sets[ci].past || sets[ci].val.IsZero() {
					allPast = false
				}
			}
			if allPast {
				env.Fail("C10/expiry-not-persistent", "%s: read #%d [%s, %s] returned (%d, %v) although every deadline set before or during it (%d Sets) was already in the past when it was set", sc.Conn, i, rel(r.tInv), rel(r.tRet), r.n, r.err, len(cands))
				return
			}
		}
		if !overlapping && gov >= 0 && !vals[0].IsZero() {
			if at, ok := firstTimeoutUnder[gov]; ok && at < r.inv {
				sawTimeoutUnder[gov] = true
			}
			pastAtSet := sets[gov].past
			if sawTimeoutUnder[gov] || pastAtSet {
				why := "an earlier read had already timed out under this deadline"
				if pastAtSet && !sawTimeoutUnder[gov] {
					why = "the deadline was already in the past when it was set"
				}
				env.Fail("C10/expiry-not-persistent", "%s: read #%d [%s, %s] returned (%d, %v) although the deadline in force (%s) has passed and has not been set again (%s)", sc.Conn, i, rel(r.tInv), rel(r.tRet), r.n, r.err, rel(vals[0]), why)
				return
			}
		}
	}
	// A read that fails with a timeout takes nothing: when a read is still waiting at quiescence
	// (no deadline in force any more), every datagram written has been returned by some read
	if sc.Conn != "bridge" {
		waiting, nWrites := -1, 0
		for i, r := range reads {
			if r != nil && !r.done {
				waiting = i
			}
		}
		for _, o := range sc.Writes {
			if !o.Foreign {
				nWrites++
			}
		}
		if waiting >= 0 && nData < nWrites {
			env.Fail("C10/datagram-taken-by-failed-read", "%s: %d datagrams were written and only %d reads returned one, yet read #%d is still waiting for data at quiescence: a read that failed with a timeout must have consumed a datagram", sc.Conn, nWrites, nData, waiting)
			return
		}
	}
	if sc.Interrupt > 0 && sc.Conn != "bridge" {
		// The interrupt idiom. The system is quiescent, so a read that has not returned is parked
		// inside the read, waiting. Its deadline now passes (set to the past): the read is released
		// with a timeout, and moving the deadline on right afterwards does not take that back.
		var blocked []int
		for i, r := range reads {
			if r != nil && !r.done {
				blocked = append(blocked, i)
			}
		}
		if len(blocked) == 0 {
			// nobody is waiting: clear the deadline and let one to three goroutines block in Read
			_ = c.setRead(time.Time{})
			for k, n := 0, 1+len(sc.Reads)%3; k < n; k++ {
				extra = append(extra, env.Go(fmt.Sprintf("late-reader%d", k), reader([]readOp{{}})))
			}
			env.QuiesceWithin(time.Millisecond)
			for i, r := range reads {
				if r != nil && !r.done {
					blocked = append(blocked, i)
				}
			}
		}
		if len(blocked) > 0 {
			_ = c.setRead(env.Now().Add(-time.Millisecond))
			if sc.Interrupt == 1 {
				_ = c.setRead(time.Time{})
			} else {
				_ = c.setRead(env.Now().Add(time.Hour))
			}
			env.QuiesceWithin(time.Millisecond)
			for _, bi := range blocked {
				r := reads[bi]
				if !r.done {
					env.Fail("C10/blocked-past-deadline", "%s: read #%d (one of %d blocked reads) was blocked when its deadline was set to the past (and then moved on at once): the deadline passed while it waited, yet it is still blocked", sc.Conn, bi, len(blocked))
					return
				}
				if !isTimeout(r.err) {
					env.Fail("C10/blocked-past-deadline", "%s: read #%d was blocked with no data when its deadline was set to the past; it returned (%d, %v) instead of a timeout", sc.Conn, bi, r.n, r.err)
					return
				}
			}
			env.Probe("interrupted-read")
			if len(blocked) > 1 {
				env.Probe("interrupted-two-readers")
			}
		}
	}
	_ = c.setRead(env.Now().Add(-time.Hour)) // release a reader that is still waiting
	if sc.CloseThen && c.closeRead != nil {
		env.Join(readerH)
		if reader2H != nil {
			env.Join(reader2H)
		}
		// the deadline has passed; the connection is closed; the deadline is cleared again: a read
		// now reports buffered data or the end of the connection, not a timeout any more
		if sc.CloseFuture {
			_ = c.setRead(env.Now().Add(time.Millisecond))
		}
		c.closeRead()
		if sc.CloseFuture {
			env.Sleep(2 * time.Millisecond)
			env.QuiesceWithin(time.Microsecond) // the expiry callback of the deadline has run
		}
		// closing does not touch the deadline: it has passed and was not set again, so reads keep
		// failing with a timeout
		if _, err := c.read(make([]byte, 2048)); !isTimeout(err) {
			env.Fail("C10/expiry-not-persistent", "%s: the read deadline has passed and was not set again; after Close a Read returned %v instead of a timeout", sc.Conn, err)
			return
		}
		_ = c.setRead(time.Time{})
		_, err := c.read(make([]byte, 2048))
		if isTimeout(err) {
			env.Fail("C10/spurious-timeout", "%s: after Close the read deadline was set to zero, yet Read still fails with a timeout (%v)", sc.Conn, err)
			return
		}
		env.Probe("deadline-cleared-after-close")
	}
	c.teardown()
	env.Join(readerH)
	env.Join(extra...)
	if reader2H != nil {
		env.Join(reader2H)
	}
	env.Join(c.background...)
}

func shrinkSc(sci interface{}) []interface{} {
	sc := sci.(*scenario)
	var out []interface{}
	for i := range sc.Sets {
		c := *sc
		c.Sets = append(append([]setOp(nil), sc.Sets[:i]...), sc.Sets[i+1:]...)
		out = append(out, &c)
	}
	if len(sc.Sets2) > 0 {
		c := *sc
		c.Sets2 = nil
		out = append(out, &c)
	}
	for i := range sc.Reads {
		if len(sc.Reads) > 1 {
			c := *sc
			c.Reads = append(append([]readOp(nil), sc.Reads[:i]...), sc.Reads[i+1:]...)
			out = append(out, &c)
		}
	}
	for i := range sc.Writes {
		c := *sc
		c.Writes = append(append([]writeOp(nil), sc.Writes[:i]...), sc.Writes[i+1:]...)
		out = append(out, &c)
	}
	for i := range sc.Sets {
		if sc.Sets[i].SleepNs != 0 {
			c := *sc
			c.Sets = append([]setOp(nil), sc.Sets...)
			c.Sets[i].SleepNs = 0
			out = append(out, &c)
		}
		if sc.Sets[i].Both {
			c := *sc
			c.Sets = append([]setOp(nil), sc.Sets...)
			c.Sets[i].Both = false
			out = append(out, &c)
		}
	}
	for i := range sc.Reads {
		if sc.Reads[i].SleepNs != 0 {
			c := *sc
			c.Reads = append([]readOp(nil), sc.Reads...)
			c.Reads[i].SleepNs = 0
			out = append(out, &c)
		}
	}
	return out
}

func TestSim(t *testing.T) {
	_ = fmt.Sprint
	harn.Main(t, &harn.Spec{
		ID: "C10", Gen: gen, New: func() interface{} { return &scenario{} }, Run: run, Shrink: shrinkSc,
	})
}
