// Z00 — self-test of the instrumenter's rules for constructs pion/transport does not use
// today (sync.Cond, embedded mutexes, RWMutex.TryLock, context.AfterFunc, sync.Pool,
// method values). Not a property: `bin/check Z00` must pass, `VERIF_ZZ_BUGGY=1 bin/check Z00`
// must report the planted lost-wakeup/empty-queue defect.
package zz

import (
	"context"
	"os"
	"testing"
	"time"

	"github.com/pion/transport/v3/zzverif/harn"
	"github.com/pion/transport/v3/zzverif/probe"
	"github.com/pion/transport/v3/zzverif/simrt"
)

type scenario struct {
	Producers int  `json:"producers"`
	Consumers int  `json:"consumers"`
	PerProd   int  `json:"perProd"`
	Cap       int  `json:"cap"`
	Incs      int  `json:"incs"`
	Buggy     bool `json:"buggy"`
}

func gen(r *harn.Rng, tier string) interface{} {
	sc := &scenario{Producers: r.Range(1, 3), Consumers: r.Range(1, 3), PerProd: r.Range(1, 6), Cap: r.Range(1, 3), Incs: r.Range(1, 5)}
	sc.Buggy = os.Getenv("VERIF_ZZ_BUGGY") != ""
	return sc
}

func run(env *simrt.Env, sci interface{}) {
	sc := sci.(*scenario)
	q := probe.NewQueue(sc.Cap)
	q.Buggy = sc.Buggy
	total := sc.Producers * sc.PerProd
	// consumers take a fixed share each so that everybody terminates
	share := make([]int, sc.Consumers)
	for i := 0; i < total; i++ {
		share[i%sc.Consumers]++
	}
	got := make([][]int, sc.Consumers)
	var hs []*simrt.Handle
	for p := 0; p < sc.Producers; p++ {
		p := p
		hs = append(hs, env.Go("prod", func() {
			for i := 0; i < sc.PerProd; i++ {
				q.Put(p*1000 + i)
			}
		}))
	}
	for c := 0; c < sc.Consumers; c++ {
		c := c
		hs = append(hs, env.Go("cons", func() {
			for i := 0; i < share[c]; i++ {
				v, ok := q.Get()
				if !ok {
					env.Fail("Z00/empty-get", "a consumer woken by Signal found the queue empty")
					return
				}
				got[c] = append(got[c], v)
			}
		}))
	}
	// embedded mutex + pool + method value
	cnt := &probe.Counter{}
	for i := 0; i < 3; i++ {
		hs = append(hs, env.Go("inc", func() {
			for k := 0; k < sc.Incs; k++ {
				cnt.Inc()
				probe.PoolRound(cnt)
			}
		}))
	}
	// RWMutex try-locks
	g := &probe.Gate{}
	okW := make([]int, 2)
	for i := 0; i < 2; i++ {
		i := i
		hs = append(hs, env.Go("gate", func() {
			for k := 0; k < 3; k++ {
				if g.TryWrite() {
					okW[i]++
				}
				g.TryRead()
			}
		}))
	}
	// context.AfterFunc: one cancelled (callback must run exactly once), one stopped first
	f1, f2 := probe.NewFlag(), probe.NewFlag()
	ctx1, cancel1 := context.WithCancel(context.Background())
	ctx2, cancel2 := context.WithCancel(context.Background())
	probe.Watch(ctx1, f1)
	stop2 := probe.Watch(ctx2, f2)
	hs = append(hs, env.Go("cancel1", func() { env.Sleep(time.Millisecond); cancel1() }))
	stopped := stop2()
	cancel2()
	// ticker with a context timeout
	ctx3, cancel3 := context.WithTimeout(context.Background(), 10*time.Millisecond+time.Microsecond)
	defer cancel3()
	ticks := 0
	hs = append(hs, env.Go("ticker", func() { ticks = probe.SleepyTicker(ctx3, time.Millisecond) }))
	// atomics: one armed drop, two takers
	dr := &probe.Drops{Buggy: sc.Buggy}
	dr.Arm(1)
	taken := make([]bool, 2)
	for i := 0; i < 2; i++ {
		i := i
		hs = append(hs, env.Go("taker", func() { taken[i] = dr.Take() }))
	}
	env.Join(hs...)
	env.Quiesce()
	if env.Failed() {
		return
	}
	if taken[0] && taken[1] {
		env.Fail("Z00/atomic-check-then-act", "one armed drop was taken twice")
		return
	}
	n := 0
	seen := map[int]bool{}
	for _, l := range got {
		for _, v := range l {
			if seen[v] {
				env.Fail("Z00/duplicate", "item %d consumed twice", v)
				return
			}
			seen[v] = true
			n++
		}
	}
	if n != total {
		env.Fail("Z00/lost", "%d items produced, %d consumed", total, n)
		return
	}
	if cnt.N != 3*sc.Incs*2 {
		env.Fail("Z00/counter", "counter = %d, want %d", cnt.N, 3*sc.Incs*2)
		return
	}
	if g.Writes != okW[0]+okW[1] || g.Writes == 0 {
		env.Fail("Z00/gate", "gate writes %d, successful TryLock calls %d", g.Writes, okW[0]+okW[1])
		return
	}
	if f1.Get() != 1 {
		env.Fail("Z00/afterfunc", "callback of the cancelled context ran %d times", f1.Get())
		return
	}
	if !stopped || f2.Get() != 0 {
		env.Fail("Z00/afterfunc-stop", "stop()=%v, callback ran %d times", stopped, f2.Get())
		return
	}
	_ = ticks // no bound: once the context is done the select may still prefer a ready tick, any number of times
}

func TestSim(t *testing.T) {
	harn.Main(t, &harn.Spec{ID: "Z00", Gen: gen, New: func() interface{} { return &scenario{} }, Run: run})
}
