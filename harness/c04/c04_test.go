// C04 / C05 — replay detector: never accept twice; exactly the sliding-window rule.
//
// The detector is sequential; what the simulation contributes is its environment: a
// sender numbering packets, a network that drops, duplicates, delays and reorders them,
// an attacker replaying captured numbers and an authentication step that fails for
// some packets (then accept is not invoked). The resulting delivery history is the
// explicit scenario (so it shrinks and replays); no interleaving is explored here.
package c04

import (
	"fmt"
	"os"
	"sort"
	"testing"

	"github.com/pion/transport/v3/replaydetector"
	"github.com/pion/transport/v3/zzverif/harn"
	"github.com/pion/transport/v3/zzverif/simrt"
)

type event struct {
	Seq    uint64 `json:"seq"`
	Accept bool   `json:"accept"` // false: authentication failed, accept() is not invoked
	Defer  int    `json:"defer,omitempty"` // C04 only: accept() is invoked after this many later checks (pipelined authentication)
	Why    string `json:"why,omitempty"`
}

type scenario struct {
	Window uint    `json:"window"`
	MaxSeq uint64  `json:"maxSeq"`
	Wrap   bool    `json:"wrap"`
	Events []event `json:"events"`
}

var prop = func() string {
	if p := os.Getenv("VERIF_PROP"); p != "" {
		return p
	}
	return "C04"
}()

var windows = []uint{0, 1, 2, 31, 32, 33, 47, 48, 49, 50, 63, 64, 65, 100, 127, 128, 129, 191, 192, 193, 256}

func gen(r *harn.Rng, tier string) interface{} {
	sc := &scenario{}
	sc.Wrap = r.Bool(0.5)
	if r.Bool(0.85) {
		sc.Window = windows[r.Intn(len(windows))]
	} else {
		sc.Window = uint(r.Range(0, 400))
	}
	w := uint64(sc.Window)
	var maxes []uint64
	if prop == "C05" {
		// inside the property's quantifier: max >= window; wrapping: max+1 >= 2*window, max < 2^62
		if sc.Wrap {
			maxes = []uint64{2 * w, 2*w + 1, 2*w + 5, 4 * w, 1<<16 - 1, 1<<48 - 1, 1<<62 - 1, 1 << 20}
			if w > 0 {
				maxes = append(maxes, 2*w-1)
			} else {
				maxes = append(maxes, 1, 2, 7)
			}
		} else {
			maxes = []uint64{w, w + 1, 2 * w, 2*w + 3, 1<<16 - 1, 1<<48 - 1, 1<<62 - 1, 1<<64 - 1, 1<<64 - 1}
			if w == 0 {
				maxes = append(maxes, 1, 5)
			}
		}
	} else {
		maxes = []uint64{0, 1, 2, 10, w / 2, w, w + 1, 2 * w, 2*w + 1, 1<<16 - 1, 1<<48 - 1, 1<<62 - 1}
		if w > 0 {
			maxes = append(maxes, w-1, 2*w-1)
		}
		if !sc.Wrap {
			maxes = append(maxes, 1<<64-1, 1<<64-1)
		}
	}
	sc.MaxSeq = maxes[r.Intn(len(maxes))]
	max := sc.MaxSeq
	hasM := max != 1<<64-1
	M := max + 1 // valid only if hasM
	mod := func(x uint64) uint64 {
		if sc.Wrap && hasM && M != 0 {
			return x % M
		}
		return x
	}
	// sender
	var cur uint64
	switch r.Intn(8) {
	case 0, 1:
		cur = 0
	case 2:
		cur = 1
	case 3:
		cur = max - uint64(r.Intn(int(w)+3))
		if cur > max {
			cur = max
		}
	case 4:
		if hasM {
			cur = M/2 - uint64(r.Intn(int(w)+3))
			if cur > max {
				cur = 0
			}
		}
	case 5:
		cur = max
	default:
		if max > 0 {
			cur = r.U64() % (max/2 + 1)
		}
	}
	n := r.Range(1, 60)
	if tier == "thorough" && r.Bool(0.3) {
		n = r.Range(60, 250)
	}
	type delivery struct {
		at  int
		ord int
		ev  event
	}
	var dl []delivery
	var captured []uint64
	lossP := []float64{0, 0.05, 0.3}[r.Intn(3)]
	dupP := []float64{0, 0.1, 0.3}[r.Intn(3)]
	delayP := []float64{0, 0.1, 0.4}[r.Intn(3)]
	authP := []float64{0, 0.05, 0.25}[r.Intn(3)]
	attackP := []float64{0, 0.1, 0.4}[r.Intn(3)]
	ord := 0
	var hi uint64 // highest number handed to the detector so far (whoever sent it)
	add := func(at int, seq uint64, why string) {
		dl = append(dl, delivery{at: at, ord: ord, ev: event{Seq: seq, Accept: !r.Bool(authP), Why: why}})
		ord++
		if seq > hi && seq <= max {
			hi = seq
		}
	}
	for i := 0; i < n; i++ {
		captured = append(captured, cur)
		if !r.Bool(lossP) {
			delay := 0
			if r.Bool(delayP) {
				delay = r.Pick(1, 2, 3, int(w)/2+1, int(w)-2, int(w)-1, int(w), int(w)+1, 2*int(w)+2)
				if delay < 1 {
					delay = 1
				}
			}
			add(i+delay, cur, "sent")
			if r.Bool(dupP) {
				add(i+delay+r.Pick(0, 1, 2, int(w), int(w)+3), cur, "dup")
			}
		}
		if r.Bool(attackP) && len(captured) > 0 {
			var s uint64
			switch r.Intn(8) {
			case 6, 7:
				// just behind / at / just ahead of the highest number delivered so far, e.g. after
				// an accepted forged number moved the window far ahead of the sender
				s = hi - uint64(r.Intn(int(w)+3))
				if r.Bool(0.2) {
					s = hi + uint64(r.Intn(3))
				}
			case 0:
				s = captured[0]
			case 1:
				s = r.U64()
				if max != 1<<64-1 && r.Bool(0.7) {
					s %= max + 1
				}
			case 2:
				s = max + uint64(r.Intn(3)) // at and above the maximum (wraps for 2^64-1)
			default:
				s = captured[r.Intn(len(captured))]
			}
			add(i+r.Intn(3), s, "attack")
		}
		// advance
		step := uint64(1)
		if r.Bool(0.2) {
			steps := []uint64{2, 3, w - 1, w, w + 1, 63, 64, 65, 2 * w, 2*w + 1, 127, 128, 129, w + 64}
			if hasM {
				steps = append(steps, M/2-1, M/2, M/2+1, M/2-w, M/4, M-1)
			}
			if max >= 1<<63 {
				steps = append(steps, 1<<63-1, 1<<63, 1<<63+5, 3<<62, 1<<62)
			}
			step = steps[r.Intn(len(steps))]
			if step == 0 || (step > 1<<63 && max < 1<<63) {
				step = 1
			}
		}
		next := cur + step
		if next < cur { // overflow of uint64: the sender stops numbering
			break
		}
		if !sc.Wrap && next > max && r.Bool(0.7) {
			break
		}
		cur = mod(next)
	}
	sort.SliceStable(dl, func(i, j int) bool {
		if dl[i].at != dl[j].at {
			return dl[i].at < dl[j].at
		}
		return dl[i].ord < dl[j].ord
	})
	deferP := 0.0
	if prop == "C04" && r.Bool(0.3) {
		deferP = []float64{0.05, 0.3}[r.Intn(2)]
	}
	for _, d := range dl {
		ev := d.ev
		if deferP > 0 && ev.Accept && r.Bool(deferP) {
			ev.Defer = r.Pick(1, 1, 2, 3)
		}
		sc.Events = append(sc.Events, ev)
	}
	return sc
}

// model is the reference: accepted numbers (keyed by cycle for the wrapping detector)
// and the newest accepted number.
type model struct {
	wrap      bool
	window    uint64
	max       uint64
	hasNewest bool
	newest    uint64
	cycle     int64
	accepted  map[[2]uint64]bool // (cycle, seq)
}

type verdict int

const (
	vRefuse verdict = iota
	vAccept
	vFree // left unconstrained by the property
)

// classify returns whether seq is newer than the newest accepted number, its distance
// behind otherwise, the cycle it belongs to, and whether it is at the half-space boundary.
func (m *model) classify(seq uint64) (newer bool, behind uint64, cyc int64, boundary bool) {
	if !m.wrap {
		if !m.hasNewest {
			// positioned at 0 with nothing accepted
			return seq > 0, 0, 0, false
		}
		if seq > m.newest {
			return true, 0, 0, false
		}
		return false, m.newest - seq, 0, false
	}
	M := m.max + 1
	a := (seq + M - m.newest) % M // distance ahead
	if a == 0 {
		return false, 0, m.cycle, false
	}
	// boundary: the numbers nearest to half the space ahead are unconstrained
	if M%2 == 0 {
		// exactly half the space ahead is ambiguous, and so is (historically) the number just
		// below it; M/2+1 ahead is M/2-1 behind, i.e. clearly behind, and stays constrained
		if a == M/2-1 || a == M/2 {
			boundary = true
		}
	} else if a == (M-1)/2 || a == (M+1)/2 {
		boundary = true
	}
	if 2*a < M { // less than half the space ahead
		cyc = m.cycle
		if seq < m.newest {
			cyc++
		}
		return true, 0, cyc, boundary
	}
	cyc = m.cycle
	if seq > m.newest {
		cyc--
	}
	return false, M - a, cyc, boundary
}

func (m *model) check(seq uint64) (v verdict, wasAccepted bool) {
	if seq > m.max {
		return vRefuse, false
	}
	if m.wrap && !m.hasNewest {
		return vAccept, false
	}
	newer, behind, cyc, boundary := m.classify(seq)
	acc := m.accepted[[2]uint64{uint64(cyc), seq}]
	if boundary {
		return vFree, acc
	}
	if acc {
		return vRefuse, true
	}
	if newer || behind < m.window {
		return vAccept, false
	}
	return vRefuse, false
}

// accept records the acceptance; returns whether seq becomes the newest accepted
// number (free=true when the property leaves it open).
func (m *model) accept(seq uint64) (latest bool, free bool) {
	if !m.hasNewest {
		m.hasNewest = true
		m.newest = seq
		m.accepted[[2]uint64{uint64(m.cycle), seq}] = true
		return true, false
	}
	newer, _, cyc, boundary := m.classify(seq)
	if boundary {
		// unconstrained: follow nothing; the caller resynchronises from the implementation
		return false, true
	}
	m.accepted[[2]uint64{uint64(cyc), seq}] = true
	if newer {
		m.newest = seq
		m.cycle = cyc
		return true, false
	}
	return false, false
}

func run(env *simrt.Env, sci interface{}) {
	sc := sci.(*scenario)
	var d replaydetector.ReplayDetector
	if sc.Wrap {
		d = replaydetector.WithWrap(sc.Window, sc.MaxSeq)
	} else {
		d = replaydetector.New(sc.Window, sc.MaxSeq)
	}
	m := &model{wrap: sc.Wrap, window: uint64(sc.Window), max: sc.MaxSeq, accepted: map[[2]uint64]bool{}}
	exact := prop == "C05"
	desc := fmt.Sprintf("%s(window=%d, max=%d)", map[bool]string{false: "New", true: "WithWrap"}[sc.Wrap], sc.Window, sc.MaxSeq)
	type pendingT struct {
		fn  func() bool
		seq uint64
		due int
	}
	var pending []pendingT
	firePending := func(i int, all bool) bool {
		rest := pending[:0]
		for _, p := range pending {
			if !all && p.due > i {
				rest = append(rest, p)
				continue
			}
			p.fn()
			env.Fault("deferred-accept")
			if _, free := m.accept(p.seq); free {
				return false
			}
		}
		pending = rest
		return true
	}
	for i, ev := range sc.Events {
		if !firePending(i, false) {
			return
		}
		want, wasAcc := m.check(ev.Seq)
		acceptFn, ok := d.Check(ev.Seq)
		if ok && ev.Seq > sc.MaxSeq {
			env.Fail(prop+"/above-maximum-accepted", "%s: event %d: Check(%d) succeeded although the number exceeds the maximum", desc, i, ev.Seq)
			return
		}
		if ok && wasAcc && want == vRefuse {
			env.Probe("replay-attempt")
			env.Fail(prop+"/replay-accepted", "%s: event %d: Check(%d) succeeded although %d was accepted before (newest accepted %d)", desc, i, ev.Seq, ev.Seq, m.newest)
			return
		}
		if wasAcc && !ok {
			env.Probe("replay-refused")
		}
		if exact && want != vFree {
			if ok != (want == vAccept) {
				cls := "fresh-number-refused"
				if ok {
					cls = "stale-number-accepted"
				}
				env.Fail(prop+"/"+cls, "%s: event %d: Check(%d) = %v, sliding-window rule says %v (newest accepted: %v %d)", desc, i, ev.Seq, ok, want == vAccept, m.hasNewest, m.newest)
				return
			}
		}
		if want == vFree {
			env.Probe("half-space-boundary")
			// the property leaves this number open: stop here, later answers depend on it
			if ok && ev.Accept {
				return
			}
			continue
		}
		if !ok {
			// calling the no-op callback of a failed check must stay harmless
			if acceptFn != nil && acceptFn() {
				env.Fail(prop+"/refused-accept-returned-true", "%s: event %d: accept callback of a refused Check(%d) returned true", desc, i, ev.Seq)
				return
			}
			continue
		}
		if !ev.Accept {
			env.Fault("auth-failure")
			continue // a check whose callback is never invoked has no effect
		}
		if !exact && want == vRefuse {
			// C04 only tracks what was accepted; the detector accepted a number the
			// window rule would refuse (C05's concern). Record it as accepted and go on.
		}
		if ev.Defer > 0 && !exact {
			pending = append(pending, pendingT{fn: acceptFn, seq: ev.Seq, due: i + ev.Defer + 1})
			continue
		}
		gotLatest := acceptFn()
		wantLatest, free := m.accept(ev.Seq)
		if free {
			return
		}
		if exact && gotLatest != wantLatest {
			env.Fail(prop+"/accept-latest-flag-wrong", "%s: event %d: accept() of %d returned %v, want %v (newest accepted now %d)", desc, i, ev.Seq, gotLatest, wantLatest, m.newest)
			return
		}
		if !m.wrap || true {
			if sc.Window > 0 {
				env.Probe("accepted")
			}
		}
	}
}

func shrinkSc(sci interface{}) []interface{} {
	sc := sci.(*scenario)
	var out []interface{}
	n := len(sc.Events)
	for chunk := n / 2; chunk >= 1; chunk /= 2 {
		for i := 0; i+chunk <= n; i += chunk {
			c := *sc
			c.Events = append(append([]event(nil), sc.Events[:i]...), sc.Events[i+chunk:]...)
			out = append(out, &c)
		}
		if len(out) > 400 {
			break
		}
	}
	for i, e := range sc.Events {
		if !e.Accept {
			c := *sc
			c.Events = append([]event(nil), sc.Events...)
			c.Events[i].Accept = true
			out = append(out, &c)
		}
		if e.Defer > 0 {
			c := *sc
			c.Events = append([]event(nil), sc.Events...)
			c.Events[i].Defer = 0
			out = append(out, &c)
		}
	}
	return out
}

func nonTrivial(sci interface{}, res *simrt.Result) (bool, uint64) {
	sc := sci.(*scenario)
	h := uint64(1469598103934665603)
	mix := func(x uint64) { h = (h ^ x) * 1099511628211 }
	mix(uint64(sc.Window))
	mix(sc.MaxSeq)
	if sc.Wrap {
		mix(1)
	}
	for _, e := range sc.Events {
		mix(e.Seq)
		if e.Accept {
			mix(7)
		}
	}
	// non-trivial: at least one replay attempt was refused and at least 3 numbers accepted
	return res.Probes["replay-refused"] >= 1 && res.Probes["accepted"] >= 3, h
}

func TestSim(t *testing.T) {
	harn.Main(t, &harn.Spec{
		ID: prop, Gen: gen, New: func() interface{} { return &scenario{} }, Run: run, Shrink: shrinkSc,
		Sequential: true, NonTrivial: nonTrivial,
	})
}
