// C13 — vnet never hands out an IP or socket address that is already in use.
package c13

import (
	"fmt"
	"net"
	"sort"
	"strings"
	"testing"
	"time"

	"github.com/anishathalye/porcupine"
	"github.com/pion/logging"
	"github.com/pion/transport/v3/vnet"
	"github.com/pion/transport/v3/zzverif/harn"
	"github.com/pion/transport/v3/zzverif/simrt"
)

// ---- scenario: address assignment on a router -------------------------------

type nicSpec struct {
	Router bool     `json:"router"`
	Static []string `json:"static"` // last octets (or full IPs when containing a dot)
}

type bindOp struct {
	K    string `json:"k"`    // listenudp | listenpacket | dial | dialudp | close | probe
	IP   string `json:"ip"`   // "" = nil address / wildcard, "0.0.0.0", "127.0.0.1", host IP
	Port int    `json:"port"` // 0 = ephemeral
	Ref  int    `json:"ref"`  // close: index of an earlier successful bind (modulo)
	V4   bool   `json:"v4,omitempty"` // hand the IP over in its 4-byte form (net.ParseIP gives 16 bytes)
}

type scenario struct {
	Kind    string     `json:"kind"` // assign | bind
	CIDR    string     `json:"cidr"`
	NICs    []nicSpec  `json:"nics"`
	HostIPs []string   `json:"hostIPs"`
	Workers [][]bindOp `json:"workers"`
	Sweep   bool       `json:"sweep"` // exhaust the ephemeral range first
	SweepIP int        `json:"sweepIP,omitempty"` // 0: on the wildcard address; k>0: on the host's k-th address (mod), then other addresses must still have free ports
	ProbeMode int      `json:"probeMode,omitempty"` // traffic: 0 statics then the next automatic candidates, 1 candidates then statics, 2 statics only, 3 the next candidate only
	Traffic   bool     `json:"traffic,omitempty"` // assign: the router runs and routes datagrams to still free addresses while NICs join
	EarlyBind bool     `json:"earlyBind,omitempty"` // a wildcard port-0 bind (closed again) before the host is attached to the router
	NilIPPort bool     `json:"nilIPPort,omitempty"` // binds to the wildcard address are written as &net.UDPAddr{Port: p} (nil IP)
	MoreFails int      `json:"moreFails,omitempty"` // nearFull: this many further port 0 binds fail against the full range (1000 probes each) before the victim is closed
	Victim   int       `json:"victim,omitempty"` // nearFull: afterwards the range is filled completely (a port 0 bind fails), the wildcard socket on this port is closed, and a port 0 bind must get exactly this port
	NearFull int       `json:"nearFull"` // leave only this many ephemeral ports free before the workers start (0 = off)
}

func gen(r *harn.Rng, tier string) interface{} {
	sc := &scenario{}
	if r.Bool(0.4) {
		sc.Kind = "assign"
		sc.Traffic = r.Bool(0.4)
		sc.ProbeMode = r.Intn(4)
		sc.CIDR = []string{"10.0.0.0/24", "10.0.0.0/24", "192.168.7.0/24", "10.1.2.0/28", "10.9.0.0/16"}[r.Intn(5)]
		n := r.Range(1, 14)
		if r.Bool(0.05) {
			n = 250 + r.Intn(12)
		}
		usedStatic := map[int]bool{}
		for i := 0; i < n; i++ {
			ns := nicSpec{Router: r.Bool(0.25)}
			if r.Bool(0.35) && n < 100 {
				k := r.Range(1, 3)
				if k == 3 && r.Bool(0.7) {
					k = 1
				}
				for j := 0; j < k; j++ {
					o := r.Pick(1, 1, 2, 3, 4, 5, 10, 100, 200, 253, 254, 255, 255, 0)
					if r.Bool(0.2) {
						o = r.Range(1, 254)
					}
					if usedStatic[o] {
						continue // duplicate static addresses are the user's problem
					}
					usedStatic[o] = true
					ns.Static = append(ns.Static, fmt.Sprint(o))
				}
				if r.Bool(0.05) {
					ns.Static = append(ns.Static, "172.16.0.9") // outside the subnet
				}
			}
			if n >= 250 && i == 0 && r.Bool(0.6) {
				// one static address at the top of (or high in) the automatic range, then hundreds of
				// automatic ones: the counter has to step over it, and over the end of the range
				ns.Static = []string{fmt.Sprint(r.Pick(254, 254, 253, 200, 255))}
			}
			sc.NICs = append(sc.NICs, ns)
		}
		return sc
	}
	sc.Kind = "bind"
	sc.EarlyBind = r.Bool(0.3)
	sc.NilIPPort = r.Bool(0.3)
	sc.CIDR = "10.0.0.0/24"
	nIP := r.Range(1, 3)
	for i := 0; i < nIP; i++ {
		sc.HostIPs = append(sc.HostIPs, fmt.Sprintf("10.0.0.%d", 10+i))
	}
	nw := r.Pick(1, 1, 2, 3)
	if r.Bool(0.03) {
		sc.Sweep = true
		sc.SweepIP = r.Pick(0, 0, 1, 2)
		nw = 1
	}
	if !sc.Sweep && r.Bool(0.03) {
		sc.NearFull = r.Pick(2, 3, 4, 6)
		sc.Victim = r.Pick(0, 5999, 5999, 5000, 5998, 5432)
		sc.MoreFails = r.Pick(0, 0, 1, 3, 62, 63, 64, 65, 66)
		nw = r.Pick(2, 3)
	}
	ips := append([]string{"", "0.0.0.0", "127.0.0.1", "10.0.0.99"}, sc.HostIPs...)
	if r.Bool(0.3) {
		// addresses an IPv4-only host does not own, in the other family
		ips = append(ips, "::", "::1")
	}
	for w := 0; w < nw; w++ {
		var ops []bindOp
		if sc.NearFull > 0 {
			for i, n := 0, r.Range(1, 3); i < n; i++ {
				ops = append(ops, bindOp{K: "listenudp", Port: 0}.fix(sc.HostIPs, r.Intn(3)))
			}
			sc.Workers = append(sc.Workers, ops)
			continue
		}
		if r.Bool(0.25) {
			// bind, close, re-bind the same address, close the stale handle again, bind once more, probe
			ip := append([]string{"", "127.0.0.1"}, sc.HostIPs...)[r.Intn(2+len(sc.HostIPs))]
			port := 4100 + w
			if r.Bool(0.5) {
				port = 4100 // the workers run the pattern on one port (mostly on different addresses of the host)
			}
			pip := ip
			if pip == "" {
				pip = sc.HostIPs[0]
			}
			// (a datagram reaches the first socket before it is closed: whatever the host remembers
			// about that delivery must not outlive the socket)
			ops = append(ops, bindOp{K: "listenudp", IP: ip, Port: port}, bindOp{K: "probe", IP: pip, Port: port}, bindOp{K: "close", Ref: 0},
				bindOp{K: "listenudp", IP: ip, Port: port}, bindOp{K: "reclose", Ref: 0},
				bindOp{K: "listenudp", IP: ip, Port: port})
			ops = append(ops, bindOp{K: "probe", IP: pip, Port: port})
		}
		for i, n := 0, r.Range(2, 10); i < n; i++ {
			x := r.Intn(100)
			op := bindOp{IP: ips[r.Intn(len(ips))], Port: r.Pick(0, 0, 4000, 4000, 4001, 5000, 5001, 65535, 1), V4: r.Bool(0.4)}
			switch {
			case x < 35:
				op.K = "listenudp"
			case x < 50:
				op.K = "listenpacket"
			case x < 60:
				op.K = "dial"
				op.IP = []string{"10.0.0.200", "127.0.0.1"}[r.Intn(2)]
				op.Port = 9000
			case x < 64:
				op.K, op.Ref = "dialer", r.Intn(3)
			case x < 70:
				op.K = "dialudp"
			case x < 82:
				op.K = "close"
				op.Ref = r.Intn(8)
			case x < 88:
				op.K = "reclose" // Close an already closed socket once more: must change nothing
				op.Ref = r.Intn(8)
			default:
				op.K = "probe"
				op.IP = append([]string{"127.0.0.1"}, sc.HostIPs...)[r.Intn(1+len(sc.HostIPs))]
				op.Port = r.Pick(4000, 4001, 5000, 5001)
			}
			ops = append(ops, op)
		}
		sc.Workers = append(sc.Workers, ops)
	}
	return sc
}

// fix chooses the address of a port-0 bind: wildcard, first host address or loopback.
func (b bindOp) fix(hostIPs []string, k int) bindOp {
	switch k {
	case 0:
		b.IP = ""
	case 1:
		b.IP = hostIPs[0]
	default:
		b.IP = "127.0.0.1"
	}
	return b
}

func quietLF() *logging.DefaultLoggerFactory {
	lf := logging.NewDefaultLoggerFactory()
	lf.DefaultLogLevel = logging.LogLevelDisabled
	return lf
}

func expand(cidr, s string) string {
	if strings.Contains(s, ".") {
		return s
	}
	base := strings.Split(strings.Split(cidr, "/")[0], ".")
	return fmt.Sprintf("%s.%s.%s.%s", base[0], base[1], base[2], s)
}

func runAssign(env *simrt.Env, sc *scenario) {
	wan, err := vnet.NewRouter(&vnet.RouterConfig{CIDR: sc.CIDR, LoggerFactory: quietLF()})
	if err != nil {
		env.Infra("NewRouter: %v", err)
		return
	}
	_, ipnet, _ := net.ParseCIDR(sc.CIDR)
	held := map[string]int{} // address -> index of the NIC holding it
	auto := 0
	// the router is running and routes datagrams to addresses nobody holds yet, just before NICs
	// with exactly those addresses join: whatever it remembers about the failed look-ups must not
	// influence the assignment
	var prober net.PacketConn
	if sc.Traffic && strings.HasSuffix(sc.CIDR, ".0/24") && len(sc.NICs) < 60 {
		uses249 := false
		for _, ns := range sc.NICs {
			for _, st := range ns.Static {
				if st == "249" {
					uses249 = true
				}
			}
		}
		if !uses249 {
			pn, err := vnet.NewNet(&vnet.NetConfig{StaticIPs: []string{expand(sc.CIDR, "249")}})
			if err == nil && wan.AddNet(pn) == nil {
				held[expand(sc.CIDR, "249")] = -1
				if c, err := pn.ListenUDP("udp", &net.UDPAddr{IP: net.ParseIP(expand(sc.CIDR, "249")), Port: 4000}); err == nil {
					prober = c
					_ = wan.Start()
					defer func() { _ = c.Close(); _ = wan.Stop() }()
				}
			}
		}
	}
	for i, ns := range sc.NICs {
		var static []string
		for _, s := range ns.Static {
			static = append(static, expand(sc.CIDR, s))
		}
		if prober != nil {
			// which address the router looked up last, before the NIC joins, varies
			var cands, targets []string
			for k := 1; k <= 3; k++ {
				cands = append(cands, expand(sc.CIDR, fmt.Sprint((auto+k)%254+1)))
			}
			switch sc.ProbeMode {
			case 1:
				targets = append(cands, static...)
			case 2:
				targets = static
			case 3:
				targets = cands[:1]
			default:
				targets = append(append([]string(nil), static...), cands...)
			}
			for _, tgt := range targets {
				if ip := net.ParseIP(tgt); ip != nil && ipnet.Contains(ip) {
					_, _ = prober.WriteTo([]byte("anyone there?"), &net.UDPAddr{IP: ip, Port: 4000})
				}
			}
			env.QuiesceWithin(time.Millisecond)
			env.Probe("routed-to-free-addresses")
		}
		var addrs []net.IP
		var aerr error
		if ns.Router {
			child, err := vnet.NewRouter(&vnet.RouterConfig{CIDR: fmt.Sprintf("172.20.%d.0/24", i%250), StaticIPs: static, LoggerFactory: quietLF()})
			if err != nil {
				env.Infra("NewRouter child: %v", err)
				return
			}
			aerr = wan.AddRouter(child)
			if aerr == nil {
				addrs = vnet.VerifRouterWANAddrs(child)
				if prober != nil {
					_ = child.Start() // the parent is running already; it stops its children when it is stopped
				}
			}
		} else {
			n, err := vnet.NewNet(&vnet.NetConfig{StaticIPs: static})
			if err != nil {
				env.Infra("NewNet: %v", err)
				return
			}
			aerr = wan.AddNet(n)
			if aerr == nil {
				ifc, err := n.InterfaceByName("eth0")
				if err != nil {
					env.Fail("C13/no-eth0", "NIC %d: %v", i, err)
					return
				}
				as, _ := ifc.Addrs()
				for _, a := range as {
					if v, ok := a.(*net.IPNet); ok {
						addrs = append(addrs, v.IP)
					}
				}
			}
		}
		if aerr != nil {
			env.Probe("attach-error")
			continue
		}
		if len(addrs) == 0 {
			env.Fail("C13/no-address", "NIC %d was attached without error but holds no address", i)
			return
		}
		if len(static) == 0 {
			auto++
		}
		for _, ip := range addrs {
			if !ipnet.Contains(ip) {
				env.Fail("C13/address-outside-subnet", "NIC %d was attached without error but holds %s, outside %s", i, ip, sc.CIDR)
				return
			}
			if j, dup := held[ip.String()]; dup && j != i {
				how := "statically"
				if j >= 0 && len(sc.NICs[j].Static) == 0 {
					how = "automatically"
				}
				mine := "automatically assigned"
				if len(static) > 0 {
					mine = "static"
				}
				if len(static) > 0 {
					// both static and distinct by construction; only automatic assignment is constrained
					env.Probe("static-clash")
					continue
				}
				env.Fail("C13/duplicate-address", "NIC %d received the %s address %s, which NIC %d already holds (%s assigned)", i, mine, ip, j, how)
				return
			}
			held[ip.String()] = i
		}
	}
	if auto > 200 {
		env.Probe("many-automatic")
	}
}

// ---- scenario: binds on one host ---------------------------------------------

type sock struct {
	ip     string // "*" for wildcard
	remote string // connected sockets surface only datagrams from this address
	port   int
	conn net.PacketConn
	nc   net.Conn
}

type bindIn struct {
	K      string
	IP     string // normalised: "*" wildcard, or an address
	Port   int
	Owned  bool
	Closes int // close: index into the list of sockets opened by this client
}

type bindOut struct {
	OK   bool
	IP   string
	Port int
}

type bindHistory struct {
	ops       []porcupine.Operation
	hostIPs   []string
	prefilled []string // sockets opened before the concurrent phase
}

func runBind(env *simrt.Env, sc *scenario) {
	wan, err := vnet.NewRouter(&vnet.RouterConfig{CIDR: sc.CIDR, LoggerFactory: quietLF()})
	if err != nil {
		env.Infra("NewRouter: %v", err)
		return
	}
	host, err := vnet.NewNet(&vnet.NetConfig{StaticIPs: sc.HostIPs})
	if err != nil {
		env.Infra("NewNet: %v", err)
		return
	}
	peer, err := vnet.NewNet(&vnet.NetConfig{StaticIPs: []string{"10.0.0.200"}})
	if err != nil {
		env.Infra("NewNet: %v", err)
		return
	}
	if sc.EarlyBind {
		// the host is used before it has an eth0 address; whatever it remembers from now must
		// not survive the attachment
		if c, err := host.ListenUDP("udp", &net.UDPAddr{IP: net.IPv4zero, Port: 0}); err == nil {
			_ = c.Close()
			env.Probe("bind-before-attach")
		}
	}
	if err := wan.AddNet(host); err != nil {
		env.Infra("AddNet: %v", err)
		return
	}
	if err := wan.AddNet(peer); err != nil {
		env.Infra("AddNet: %v", err)
		return
	}
	if err := wan.Start(); err != nil {
		env.Infra("Start: %v", err)
		return
	}
	psock, err := peer.ListenUDP("udp", &net.UDPAddr{IP: net.ParseIP("10.0.0.200"), Port: 9000})
	if err != nil {
		env.Infra("peer listen: %v", err)
		return
	}
	owned := map[string]bool{"127.0.0.1": true}
	for _, ip := range sc.HostIPs {
		owned[ip] = true
	}
	h := &bindHistory{hostIPs: sc.HostIPs}
	var allSocks []*sock
	concurrent := len(sc.Workers) > 1

	if sc.Sweep {
		// occupy the whole ephemeral range on the wildcard address (or on one specific address)
		n := 0
		sweepIP, sweepName := net.IPv4zero, "*"
		if sc.SweepIP > 0 {
			sweepName = sc.HostIPs[(sc.SweepIP-1)%len(sc.HostIPs)]
			sweepIP = net.ParseIP(sweepName)
		}
		for i := 0; i < 1001; i++ {
			c, err := host.ListenUDP("udp", &net.UDPAddr{IP: sweepIP, Port: 0})
			if err != nil {
				if i < 1000 {
					env.Fail("C13/ephemeral-exhausted-early", "port 0 bind #%d failed (%v) although only %d of the 1000 ports 5000-5999 are in use", i+1, err, i)
					return
				}
				env.Probe("ephemeral-exhausted")
				break
			}
			la := c.LocalAddr().(*net.UDPAddr)
			if la.Port < 5000 || la.Port > 5999 {
				env.Fail("C13/ephemeral-out-of-range", "port 0 bind returned port %d", la.Port)
				return
			}
			if i == 1000 {
				env.Fail("C13/ephemeral-reused", "the 1001st port 0 bind on %s succeeded (port %d) although all 1000 ports 5000-5999 are in use there", sweepName, la.Port)
				return
			}
			allSocks = append(allSocks, &sock{ip: sweepName, port: la.Port, conn: c})
			n++
		}
		if sc.SweepIP > 0 {
			// every port is taken on one address only: the host's other addresses still have all of theirs
			others := []string{"127.0.0.1"}
			for _, ip := range sc.HostIPs {
				if ip != sweepName {
					others = append(others, ip)
				}
			}
			for _, ip := range others {
				c, err := host.ListenUDP("udp", &net.UDPAddr{IP: net.ParseIP(ip), Port: 0})
				if err != nil {
					env.Fail("C13/bind-refused", "port 0 bind on %s failed (%v) although the ports 5000-5999 are in use on %s only", ip, err, sweepName)
					return
				}
				la := c.LocalAddr().(*net.UDPAddr)
				if la.Port < 5000 || la.Port > 5999 || !la.IP.Equal(net.ParseIP(ip)) {
					env.Fail("C13/wrong-local-address", "port 0 bind on %s returned %v", ip, la)
					return
				}
				_ = c.Close()
			}
			env.Probe("ephemeral-exhausted-on-one-address")
		}
		ports := map[int]bool{}
		for _, s := range allSocks {
			if ports[s.port] {
				env.Fail("C13/ephemeral-reused", "two open sockets on %s share port %d", sweepName, s.port)
				return
			}
			ports[s.port] = true
		}
		for _, s := range allSocks {
			_ = s.conn.Close()
		}
		allSocks = nil
	}

	var prefilled []string
	if sc.NearFull > 0 {
		// occupy all but a few ephemeral ports on the wildcard address, then let the workers bind port 0 concurrently
		for i := 0; i < 1000-sc.NearFull; i++ {
			c, err := host.ListenUDP("udp", &net.UDPAddr{IP: net.IPv4zero, Port: 0})
			if err != nil {
				env.Fail("C13/bind-refused", "port 0 bind #%d failed (%v) although %d ports of 5000-5999 are free", i+1, err, 1000-i)
				return
			}
			la := c.LocalAddr().(*net.UDPAddr)
			allSocks = append(allSocks, &sock{ip: "*", port: la.Port, conn: c})
			prefilled = append(prefilled, fmt.Sprintf("*|%d", la.Port))
		}
		env.Probe("near-full-range")
	}
	h.prefilled = prefilled
	// sequential model (used directly when there is one worker)
	open := map[string]*sock{} // key ip|port
	key := func(ip string, port int) string { return fmt.Sprintf("%s|%d", ip, port) }
	covers := func(ip string, port int) *sock {
		if s := open[key("*", port)]; s != nil {
			return s
		}
		return open[key(ip, port)]
	}
	conflicts := func(ip string, port int) bool {
		if open[key("*", port)] != nil {
			return true
		}
		if ip == "*" {
			for _, s := range open {
				if s.port == port {
					return true
				}
			}
			return false
		}
		return open[key(ip, port)] != nil
	}
	var hs []*simrt.Handle
	for w := range sc.Workers {
		w := w
		hs = append(hs, env.Go(fmt.Sprintf("binder%d", w), func() {
			var mine []*sock
			var closedHandles []interface{ Close() error }
			for i, o := range sc.Workers[w] {
				if env.Failed() {
					return
				}
				switch o.K {
				case "close":
					if len(mine) == 0 {
						continue
					}
					s := mine[o.Ref%len(mine)]
					if s.conn == nil && s.nc == nil {
						continue
					}
					call := env.Stamp()
					var err error
					if s.conn != nil {
						err = s.conn.Close()
						closedHandles = append(closedHandles, s.conn)
					} else {
						err = s.nc.Close()
						closedHandles = append(closedHandles, s.nc)
					}
					s.conn, s.nc = nil, nil
					if err != nil {
						env.Fail("C13/close-error", "worker %d op %d: Close of %s:%d: %v", w, i, s.ip, s.port, err)
						return
					}
					h.ops = append(h.ops, porcupine.Operation{ClientId: w, Input: bindIn{K: "close", IP: s.ip, Port: s.port}, Call: int64(call), Output: bindOut{OK: true}, Return: int64(env.Stamp())})
					if !concurrent {
						delete(open, key(s.ip, s.port))
					}
				case "reclose":
					if len(closedHandles) == 0 {
						continue
					}
					_ = closedHandles[o.Ref%len(closedHandles)].Close() // an error is fine; an effect is not
					env.Fault("repeated-close")
				case "dialer":
					if concurrent {
						continue
					}
					// a transport.Dialer with a local address of port 0: every Dial picks a free port of its own
					hip := sc.HostIPs[o.Ref%len(sc.HostIPs)]
					d := host.CreateDialer(&net.Dialer{LocalAddr: &net.UDPAddr{IP: ipOf(hip, o.V4), Port: 0}})
					var got []net.Conn
					for k := 0; k < 2; k++ {
						c, err := d.Dial("udp", "10.0.0.200:9000")
						if err != nil {
							env.Fail("C13/bind-refused", "worker %d op %d: Dial #%d through a dialer with local address %s:0 failed (%v) although the ephemeral range has free ports", w, i, k+1, hip, err)
							return
						}
						la, _ := c.LocalAddr().(*net.UDPAddr)
						// (which of the host's addresses the dialer uses is its own business)
						if la == nil || la.Port < 5000 || la.Port > 5999 || conflicts(la.IP.String(), la.Port) {
							env.Fail("C13/ephemeral-in-use", "worker %d op %d: Dial #%d through a dialer with local address %s:0 was bound to %v (open sockets: %s)", w, i, k+1, hip, c.LocalAddr(), openDesc(open))
							return
						}
						for _, p := range got {
							if p.LocalAddr().String() == c.LocalAddr().String() {
								env.Fail("C13/ephemeral-in-use", "worker %d op %d: two open sockets of one dialer share %v", w, i, c.LocalAddr())
								return
							}
						}
						got = append(got, c)
					}
					for _, c := range got {
						_ = c.Close()
					}
					env.Probe("dialer")
				case "probe":
					if concurrent {
						continue
					}
					// an inbound datagram goes to the open socket covering its destination, and to no other
					tag := []byte(fmt.Sprintf("probe-%d-%d", w, i))
					var sender net.PacketConn = psock
					senderAddr := "10.0.0.200:9000"
					if o.IP == "127.0.0.1" {
						ls, err := host.ListenUDP("udp", &net.UDPAddr{IP: net.ParseIP("127.0.0.1"), Port: 0})
						if err != nil {
							if len(open) < 900 {
								env.Fail("C13/bind-refused", "loopback port 0 bind for a probe failed: %v", err)
							}
							return
						}
						sender = ls
						la := ls.LocalAddr().(*net.UDPAddr)
						s := &sock{ip: "127.0.0.1", port: la.Port, conn: ls}
						if conflicts("127.0.0.1", la.Port) {
							env.Fail("C13/ephemeral-in-use", "port 0 bind on 127.0.0.1 returned port %d, already covered by an open socket", la.Port)
							return
						}
						open[key(s.ip, s.port)] = s
						allSocks = append(allSocks, s)
						mine = append(mine, s)
						senderAddr = fmt.Sprintf("127.0.0.1:%d", la.Port)
					}
					want := covers(o.IP, o.Port)
					if want != nil && want.remote != "" && want.remote != senderAddr {
						want = nil // a connected socket discards datagrams from other sources
					}
					if _, err := sender.WriteTo(tag, &net.UDPAddr{IP: ipOf(o.IP, o.V4), Port: o.Port}); err != nil {
						env.Fail("C13/probe-write", "probe WriteTo: %v", err)
						return
					}
					env.Quiesce()
					for _, s := range allSocks {
						if s.conn == nil && s.nc == nil {
							continue
						}
						got := poll(s)
						if s == want {
							if len(got) != 1 || string(got[0]) != string(tag) {
								env.Fail("C13/probe-not-delivered", "a datagram to %s:%d should reach the open socket bound to %s:%d but it received %d datagram(s)", o.IP, o.Port, s.ip, s.port, len(got))
								return
							}
							env.Probe("probe-delivered")
						} else if len(got) != 0 {
							env.Fail("C13/probe-misdelivered", "a datagram to %s:%d was received by the socket bound to %s:%d", o.IP, o.Port, s.ip, s.port)
							return
						}
					}
				default:
					ip := o.IP
					var laddr *net.UDPAddr
					if ip != "" && !(sc.NilIPPort && ip == "0.0.0.0" && o.Port != 0) {
						laddr = &net.UDPAddr{IP: ipOf(ip, o.V4), Port: o.Port}
					} else if o.Port != 0 {
						laddr = &net.UDPAddr{Port: o.Port}
					}
					norm := ip
					if ip == "" || ip == "0.0.0.0" {
						norm = "*"
					}
					in := bindIn{K: o.K, IP: norm, Port: o.Port, Owned: norm == "*" || owned[norm]}
					call := env.Stamp()
					var pc net.PacketConn
					var nc net.Conn
					var err error
					switch o.K {
					case "listenudp":
						pc, err = host.ListenUDP("udp", laddr)
					case "listenpacket":
						a := ip
						if a == "" {
							a = "0.0.0.0"
						}
						pc, err = host.ListenPacket("udp", fmt.Sprintf("%s:%d", a, o.Port))
					case "dialudp":
						pc2, e2 := host.DialUDP("udp", laddr, &net.UDPAddr{IP: net.ParseIP("10.0.0.200"), Port: 9000})
						err = e2
						if e2 == nil {
							pc = pc2
						}
					case "dial":
						// source address chosen by the host: first eth0 address, or loopback
						nc, err = host.Dial("udp", fmt.Sprintf("%s:%d", o.IP, o.Port))
						in.Port = 0
						in.Owned = true
						if o.IP == "127.0.0.1" {
							in.IP = "127.0.0.1"
						} else {
							in.IP = sc.HostIPs[0]
						}
					}
					out := bindOut{OK: err == nil}
					var s *sock
					if err == nil {
						var la *net.UDPAddr
						if pc != nil {
							la = pc.LocalAddr().(*net.UDPAddr)
						} else {
							la = nc.LocalAddr().(*net.UDPAddr)
						}
						out.Port = la.Port
						out.IP = la.IP.String()
						if la.IP.IsUnspecified() {
							out.IP = "*"
						}
						s = &sock{ip: out.IP, port: la.Port, conn: pc, nc: nc}
						switch o.K {
						case "dialudp":
							s.remote = "10.0.0.200:9000"
						case "dial":
							s.remote = fmt.Sprintf("%s:%d", o.IP, o.Port)
						}
						mine = append(mine, s)
						allSocks = append(allSocks, s)
					}
					h.ops = append(h.ops, porcupine.Operation{ClientId: w, Input: in, Call: int64(call), Output: out, Return: int64(env.Stamp())})
					if concurrent {
						continue
					}
					// sequential: judge at once
					if v := judge(in, out, func(ip string, port int) bool { return conflicts(ip, port) }); v != "" {
						env.Fail("C13/"+strings.SplitN(v, ":", 2)[0], "worker %d op %d %+v -> %+v: %s (open sockets: %s)", w, i, in, out, v, openDesc(open))
						return
					}
					if out.OK {
						open[key(s.ip, s.port)] = s
					}
				}
			}
		}))
	}
	env.Join(hs...)
	if env.Failed() {
		return
	}
	if sc.NearFull > 0 && sc.Victim != 0 {
		// fill the range completely: the last port 0 bind fails
		own := map[int]*sock{} // wildcard sockets the driver opened itself (no worker closes them), by port
		for _, k := range prefilled {
			var port int
			fmt.Sscanf(k, "*|%d", &port)
			for _, sk := range allSocks {
				if sk.ip == "*" && sk.port == port && own[port] == nil {
					own[port] = sk
				}
			}
		}
		full := false
		for i := 0; i < 1100 && !full; i++ {
			c, err := host.ListenUDP("udp", &net.UDPAddr{IP: net.IPv4zero, Port: 0})
			if err != nil {
				full = true
				break
			}
			sk := &sock{ip: "*", port: c.LocalAddr().(*net.UDPAddr).Port, conn: c}
			allSocks = append(allSocks, sk)
			own[sk.port] = sk
		}
		if !full {
			env.Fail("C13/port-zero-bound-beyond-range", "more than 1000 wildcard sockets were bound with port 0 in 5000-5999")
			return
		}
		for k := 0; k < sc.MoreFails; k++ {
			if c, err := host.ListenUDP("udp", &net.UDPAddr{IP: net.IPv4zero, Port: 0}); err == nil {
				env.Fail("C13/address-in-use-bound", "every port of 5000-5999 is taken, yet a port 0 bind on the wildcard address received port %d", c.LocalAddr().(*net.UDPAddr).Port)
				return
			}
		}
		victim := own[sc.Victim]
		if victim == nil {
			for _, sk := range own {
				if victim == nil || sk.port > victim.port {
					victim = sk
				}
			}
		}
		if victim != nil {
			_ = victim.conn.Close()
			c, err := host.ListenUDP("udp", &net.UDPAddr{IP: net.IPv4zero, Port: 0})
			if err != nil {
				env.Fail("C13/bind-refused", "every port of 5000-5999 was taken and a port 0 bind had failed; then the wildcard socket on port %d was closed, yet the next port 0 bind failed too (%v): closing a socket frees its address", victim.port, err)
				return
			}
			got := c.LocalAddr().(*net.UDPAddr).Port
			allSocks = append(allSocks, &sock{ip: "*", port: got, conn: c})
			if got != victim.port {
				env.Fail("C13/address-in-use-bound", "every port of 5000-5999 was taken except %d (just closed); a port 0 bind on the wildcard address received port %d", victim.port, got)
				return
			}
			env.Probe("freed-port-found-after-exhaustion")
		}
	}
	for _, s := range allSocks {
		if s.conn != nil {
			_ = s.conn.Close()
		}
		if s.nc != nil {
			_ = s.nc.Close()
		}
	}
	_ = psock.Close()
	_ = wan.Stop()
	if concurrent {
		env.SetData(h)
	}
}

// ipOf parses an address; v4 selects the 4-byte in-memory form of an IPv4 address.
func ipOf(s string, v4 bool) net.IP {
	ip := net.ParseIP(s)
	if v4 {
		if x := ip.To4(); x != nil {
			return x
		}
	}
	return ip
}

// judge returns "" if the outcome of a bind is what the rule demands.
func judge(in bindIn, out bindOut, conflicts func(ip string, port int) bool) string {
	if !in.Owned {
		if out.OK {
			return "foreign-address-bound: the host does not own " + in.IP
		}
		return ""
	}
	if in.Port != 0 {
		c := conflicts(in.IP, in.Port)
		switch {
		case c && out.OK:
			return "address-in-use-bound: an open socket already covers this address"
		case !c && !out.OK:
			return "bind-refused: the address is owned and free"
		case out.OK && (out.Port != in.Port || out.IP != in.IP):
			return fmt.Sprintf("wrong-local-address: bound to %s:%d", out.IP, out.Port)
		}
		return ""
	}
	// ephemeral
	if out.OK {
		if out.Port < 5000 || out.Port > 5999 {
			return fmt.Sprintf("ephemeral-out-of-range: port %d", out.Port)
		}
		if out.IP != in.IP {
			return fmt.Sprintf("wrong-local-address: bound to %s", out.IP)
		}
		if conflicts(in.IP, out.Port) {
			return fmt.Sprintf("ephemeral-in-use: port %d is already covered by an open socket", out.Port)
		}
		return ""
	}
	for p := 5000; p <= 5999; p++ {
		if !conflicts(in.IP, p) {
			return fmt.Sprintf("bind-refused: port 0 bind failed although port %d is free", p)
		}
	}
	return ""
}

func openDesc(open map[string]*sock) string {
	var ks []string
	for k := range open {
		ks = append(ks, k)
	}
	sort.Strings(ks)
	return strings.Join(ks, " ")
}

func poll(s *sock) [][]byte {
	var out [][]byte
	buf := make([]byte, 200)
	for {
		var n int
		var err error
		if s.conn != nil {
			_ = s.conn.SetReadDeadline(simrt.VNow().Add(time.Hour)) // buffered data is returned at once, otherwise time out (an hour of simulated time is free; stall faults are shorter)
			n, _, err = s.conn.ReadFrom(buf)
			_ = s.conn.SetReadDeadline(time.Time{})
		} else {
			_ = s.nc.SetReadDeadline(simrt.VNow().Add(time.Hour))
			n, err = s.nc.Read(buf)
			_ = s.nc.SetReadDeadline(time.Time{})
		}
		if err != nil {
			return out
		}
		out = append(out, append([]byte(nil), buf[:n]...))
	}
}

func post(sci interface{}, res *simrt.Result) *simrt.Violation {
	h, ok := res.Data.(*bindHistory)
	if !ok || h == nil {
		return nil
	}
	model := porcupine.Model{
		Init: func() interface{} {
			ks := append([]string(nil), h.prefilled...)
			sort.Strings(ks)
			return strings.Join(ks, ";")
		},
		Step: func(st, input, output interface{}) (bool, interface{}) {
			s := st.(string) // sorted "ip|port;" entries
			in := input.(bindIn)
			out := output.(bindOut)
			entries := map[string]bool{}
			for _, e := range strings.Split(s, ";") {
				if e != "" {
					entries[e] = true
				}
			}
			conflicts := func(ip string, port int) bool {
				if entries[fmt.Sprintf("*|%d", port)] {
					return true
				}
				if ip == "*" {
					suffix := fmt.Sprintf("|%d", port)
					for e := range entries {
						if strings.HasSuffix(e, suffix) {
							return true
						}
					}
					return false
				}
				return entries[fmt.Sprintf("%s|%d", ip, port)]
			}
			if in.K == "close" {
				delete(entries, fmt.Sprintf("%s|%d", in.IP, in.Port))
			} else {
				if judge(in, out, conflicts) != "" {
					return false, st
				}
				if out.OK {
					entries[fmt.Sprintf("%s|%d", out.IP, out.Port)] = true
				}
			}
			var ks []string
			for e := range entries {
				ks = append(ks, e)
			}
			sort.Strings(ks)
			return true, strings.Join(ks, ";")
		},
	}
	switch porcupine.CheckOperationsTimeout(model, h.ops, 20*time.Second) {
	case porcupine.Illegal:
		var sb strings.Builder
		for _, o := range h.ops {
			fmt.Fprintf(&sb, "\n  client %d [%d,%d] %+v -> %+v", o.ClientId, o.Call, o.Return, o.Input, o.Output)
		}
		return &simrt.Violation{Class: "C13/binds-not-linearizable", Detail: "the concurrent bind/close history has no linearization under the bind rule (success iff owned and not covered by an open socket; port 0 picks a free port in 5000-5999):" + sb.String()}
	case porcupine.Unknown:
		if res.Probes == nil {
			res.Probes = map[string]int{}
		}
		res.Probes["porcupine-timeout"]++
	}
	return nil
}

func run(env *simrt.Env, sci interface{}) {
	sc := sci.(*scenario)
	if sc.Kind == "assign" {
		runAssign(env, sc)
		return
	}
	runBind(env, sc)
}

func shrinkSc(sci interface{}) []interface{} {
	sc := sci.(*scenario)
	var out []interface{}
	if sc.Kind == "assign" {
		n := len(sc.NICs)
		for chunk := n / 2; chunk >= 1; chunk /= 2 {
			for i := 0; i+chunk <= n; i += chunk {
				c := *sc
				c.NICs = append(append([]nicSpec(nil), sc.NICs[:i]...), sc.NICs[i+chunk:]...)
				out = append(out, &c)
			}
		}
		for i, ns := range sc.NICs {
			if ns.Router {
				c := *sc
				c.NICs = append([]nicSpec(nil), sc.NICs...)
				c.NICs[i].Router = false
				out = append(out, &c)
			}
			if len(ns.Static) > 1 {
				c := *sc
				c.NICs = append([]nicSpec(nil), sc.NICs...)
				c.NICs[i].Static = ns.Static[:1]
				out = append(out, &c)
			}
		}
		return out
	}
	if sc.Sweep {
		c := *sc
		c.Sweep = false
		out = append(out, &c)
	}
	for w := range sc.Workers {
		if len(sc.Workers) > 1 {
			c := *sc
			c.Workers = append(append([][]bindOp(nil), sc.Workers[:w]...), sc.Workers[w+1:]...)
			out = append(out, &c)
		}
		for i := range sc.Workers[w] {
			c := *sc
			c.Workers = append([][]bindOp(nil), sc.Workers...)
			c.Workers[w] = append(append([]bindOp(nil), sc.Workers[w][:i]...), sc.Workers[w][i+1:]...)
			out = append(out, &c)
		}
	}
	return out
}

func nonTrivial(sci interface{}, res *simrt.Result) (bool, uint64) {
	sc := sci.(*scenario)
	h := uint64(1469598103934665603)
	mix := func(s string) {
		for i := 0; i < len(s); i++ {
			h = (h ^ uint64(s[i])) * 1099511628211
		}
	}
	if sc.Kind == "assign" {
		mix(sc.CIDR)
		for _, n := range sc.NICs {
			mix(fmt.Sprint(n.Router, n.Static))
		}
		return len(sc.NICs) >= 2, h
	}
	if len(sc.Workers) > 1 {
		return res.Switches >= 1, res.SchedHash
	}
	for _, o := range sc.Workers[0] {
		mix(fmt.Sprint(o))
	}
	return len(sc.Workers[0]) >= 3, h
}

func TestSim(t *testing.T) {
	harn.Main(t, &harn.Spec{
		ID: "C13", Gen: gen, New: func() interface{} { return &scenario{} }, Run: run, Post: post,
		Shrink: shrinkSc, NonTrivial: nonTrivial,
		Knobs: func(r *harn.Rng, sci interface{}, cfg *simrt.Config) {
			if sc := sci.(*scenario); sc.NearFull > 0 && sc.Victim != 0 {
				cfg.MaxSteps = 1500000 // a thousand binds before the workers start, up to a hundred more afterwards
			}
		},
	})
}
