// C18 — dpipe and Bridge preserve datagrams and apply exactly the scripted impairments.
package c18

import (
	"sort"
	"time"
	"bytes"
	"encoding/binary"
	"errors"
	"fmt"
	"io"
	"net"
	"testing"

	"github.com/pion/transport/v3/dpipe"
	bridge "github.com/pion/transport/v3/test"
	"github.com/pion/transport/v3/zzverif/harn"
	"github.com/pion/transport/v3/zzverif/simrt"
)

type op struct {
	K   string `json:"k"`             // w dropnext reordernext drop reorder filter process | dpipe: w r close
	Dir int    `json:"dir"`           // bridge: sending endpoint (0: conn0->conn1); dpipe: endpoint index
	N   int    `json:"n,omitempty"`   // length / count
	Off int    `json:"off,omitempty"` // Drop offset
	Via int    `json:"via,omitempty"` // bridge write: 1 = injected with the exported Bridge.Push instead of the endpoint's Write; 2 = Write(nil) for an empty message
	DLus int   `json:"dlUs,omitempty"` // bridge write: a write deadline this many microseconds ahead is set first (it may pass while the write is paced)
}

type scenario struct {
	Kind    string `json:"kind"` // bridge | dpipe
	Ops     []op   `json:"ops"`
	BufLens [2]int `json:"bufLens"` // bridge: read slice length per endpoint
	Readers2 bool  `json:"readers2,omitempty"` // bridge: two goroutines read on each endpoint (what each message holds and how often it arrives is checked, not the order in which the two record them)
	Lazy    bool   `json:"lazy"`    // bridge: no reader waits in the background; "tick" finds no reader, "read" reads on demand
}

func gen(r *harn.Rng, tier string) interface{} {
	sc := &scenario{}
	n := r.Range(2, 30)
	if r.Bool(0.4) {
		sc.Kind = "dpipe"
		for i := 0; i < n; i++ {
			x := r.Intn(100)
			switch {
			case x < 50:
				sc.Ops = append(sc.Ops, op{K: "w", Dir: r.Intn(2), N: r.Pick(0, 1, 4, 5, 100, 1500, 9000, 4, 100, 1500, 65536, 70000)})
			case x < 85:
				sc.Ops = append(sc.Ops, op{K: "r", Dir: r.Intn(2), N: r.Pick(0, 1, 4, 64, 1500, 10000, 100000)})
			case x < 89:
				// a write refused because the write deadline has passed changes nothing
				sc.Ops = append(sc.Ops, op{K: "wtimeout", Dir: r.Intn(2), N: r.Pick(0, 4, 100)})
			case x < 92:
				// a read with a deadline on an empty end times out and takes nothing
				sc.Ops = append(sc.Ops, op{K: "rtimeout", Dir: r.Intn(2)})
			case x < 95:
				// a blocked reader races with an arriving message and a deadline set to the past:
				// it returns the message or a timeout, and after a timeout the message is still there
				sc.Ops = append(sc.Ops, op{K: "racyread", Dir: r.Intn(2), N: r.Pick(4, 100)})
			default:
				sc.Ops = append(sc.Ops, op{K: "close", Dir: r.Intn(2)})
			}
		}
		return sc
	}
	sc.Kind = "bridge"
	sc.Readers2 = r.Bool(0.15)
	sc.BufLens = [2]int{r.Pick(2000, 2000, 8, 4, 100, 0), r.Pick(2000, 2000, 8, 4, 100, 0)}
	// pending drop / reorder counters per direction, to avoid requesting both at once
	pendDrop, pendReo := [2]int{}, [2]int{}
	qlen := [2]int{}
	lossOn, lossy := false, r.Bool(0.25)
	for i := 0; i < n; i++ {
		d := r.Intn(2)
		x := r.Intn(100)
		if sc.Readers2 && r.Bool(0.15) {
			sc.Ops = append(sc.Ops, op{K: "ttw", Dir: d, N: r.Pick(4, 16, 100, 1200)})
			switch {
			case lossOn:
			case pendDrop[d] > 0:
				pendDrop[d]--
			case pendReo[d] > 0:
				pendReo[d]--
			}
			continue
		}
		if lossy && r.Bool(0.12) {
			// total loss switched on for a stretch of writes, then off again: the writes in between
			// vanish and leave every pending scripted impairment as it was
			lossOn = !lossOn
			sc.Ops = append(sc.Ops, op{K: "loss", N: map[bool]int{true: 100, false: 0}[lossOn]})
			continue
		}
		switch {
		case x < 55:
			wop := op{K: "w", Dir: d, N: r.Pick(4, 4, 5, 16, 100, 1200, 4, 16, 100, 0), DLus: r.Pick(0, 0, 0, 0, 0, 0, 1, 10, 50, 100)}
			if r.Bool(0.12) {
				wop.Via, wop.DLus = 1, 0
			} else if wop.N == 0 && r.Bool(0.5) {
				wop.Via = 2
			}
			sc.Ops = append(sc.Ops, wop)
			switch {
			case lossOn:
			case pendDrop[d] > 0:
				pendDrop[d]--
			case pendReo[d] > 0:
				pendReo[d]--
				if pendReo[d] == 0 {
					qlen[d] += 9 // unknown exactly; only used to bound Drop offsets loosely
				}
			default:
				qlen[d]++
			}
		case x < 63:
			if pendReo[d] == 0 && pendDrop[d] == 0 {
				k := r.Pick(0, 1, 1, 2, 3, -1)
				sc.Ops = append(sc.Ops, op{K: "dropnext", Dir: d, N: k})
				if k > 0 {
					pendDrop[d] = k
				}
			}
		case x < 75:
			if pendReo[d] == 0 && pendDrop[d] == 0 {
				k := r.Pick(0, 1, 1, 2, 2, 3, 4)
				sc.Ops = append(sc.Ops, op{K: "reordernext", Dir: d, N: k})
				pendReo[d] = k
			} else if pendReo[d] > 0 && r.Bool(0.5) {
				// re-arm while a batch is partly collected: the held messages stay held and
				// leave together with the new batch
				k := r.Pick(1, 2, 3)
				sc.Ops = append(sc.Ops, op{K: "reordernext", Dir: d, N: k})
				pendReo[d] = k
			}
		case x < 80:
			sc.Ops = append(sc.Ops, op{K: "drop", Dir: d, Off: r.Range(0, 3), N: r.Range(0, 4)})
		case x < 85:
			sc.Ops = append(sc.Ops, op{K: "reorder", Dir: d})
		case x < 89:
			sc.Ops = append(sc.Ops, op{K: "filter", Dir: d, N: r.Pick(0, 1, 2, 3)})
		case x < 91 && pendReo[d] == 0 && pendDrop[d] == 0:
			if r.Bool(0.5) {
				// loss switched on and off again without a write in between: nothing may be lost afterwards
				sc.Ops = append(sc.Ops, op{K: "lossblip", N: r.Pick(1, 50, 100)})
			} else {
				// k writers at once in one direction while DropNextNWrites(n) is armed: exactly
				// min(n, k) of their messages are dropped
				sc.Ops = append(sc.Ops, op{K: "cburst", Dir: d, N: r.Range(2, 4), Off: r.Pick(0, 1, 1, 2, 3)})
			}
		case x < 94:
			// one Tick with both readers waiting: hands over the head of each non-empty queue
			// (the queues are then partly delivered, which later Drop/Reorder calls must respect)
			sc.Ops = append(sc.Ops, op{K: "tick1"})
		default:
			sc.Ops = append(sc.Ops, op{K: "process"})
			qlen = [2]int{}
		}
	}
	if r.Bool(0.3) {
		// lazy mode: nobody waits in Read while the script runs; "tick" must then hand nothing
		// over, and "process" becomes "read everything that is queued"
		sc.Lazy = true
		for i := range sc.Ops {
			if sc.Ops[i].K == "w" && r.Bool(0.25) {
				sc.Ops = append(sc.Ops[:i+1], append([]op{{K: "tick"}}, sc.Ops[i+1:]...)...)
			}
		}
	}
	return sc
}

func msg(id uint32, n int) []byte {
	if n == 0 {
		return []byte{} // an empty message is a message
	}
	if n < 4 {
		n = 4
	}
	b := harn.Bytes(uint64(id)+99, n)
	binary.BigEndian.PutUint32(b, id)
	return b
}

// filter predicates by number: 0 = none, 1 = pass even ids, 2 = pass length <= 16, 3 = pass every odd call
func pred(kind int) func([]byte) bool {
	switch kind {
	case 1:
		return func(b []byte) bool { return len(b) >= 4 && binary.BigEndian.Uint32(b)%2 == 0 }
	case 2:
		return func(b []byte) bool { return len(b) <= 16 }
	case 3:
		// a counting filter (the usual "lose every second packet" of protocol tests): it is
		// consulted once for each message that gets as far as the filter
		calls := 0
		return func(b []byte) bool { calls++; return calls%2 == 1 }
	}
	return nil
}

type dirModel struct {
	queue    [][]byte
	dropN    int
	reorderN int
	stack    [][]byte
	filter   func([]byte) bool
}

func (m *dirModel) write(b []byte) {
	switch {
	case m.dropN > 0:
		m.dropN--
	case m.reorderN > 0:
		m.reorderN--
		m.stack = append(m.stack, b)
		if m.reorderN == 0 {
			for i := len(m.stack) - 1; i >= 0; i-- {
				m.queue = append(m.queue, m.stack[i])
			}
			m.stack = nil
		}
	case m.filter != nil && !m.filter(b):
	default:
		m.queue = append(m.queue, b)
	}
}

func runBridge(env *simrt.Env, sc *scenario) {
	br := bridge.NewBridge()
	conns := [2]net.Conn{br.GetConn0(), br.GetConn1()}
	var readers [2]*simrt.Handle
	var models [2]dirModel // models[d]: messages written at endpoint d, read at endpoint 1-d
	var expect [2][][]byte // expect[e]: messages endpoint e must read, in order
	var got [2][][]byte
	var readErr [2]error
	nextID := uint32(1)
	lossAll := false

	var readers2 []*simrt.Handle
	startReaders := func() {
	for e := 0; e < 2; e++ {
		e := e
		if sc.Readers2 {
			readers2 = append(readers2, env.Go(fmt.Sprintf("reader%db", e), func() {
				buf := make([]byte, sc.BufLens[e])
				for {
					n, err := conns[e].Read(buf)
					if err != nil {
						return
					}
					got[e] = append(got[e], append([]byte(nil), buf[:n]...))
					if len(got[e]) > 5000 {
						return
					}
				}
			}))
		}
		readers[e] = env.Go(fmt.Sprintf("reader%d", e), func() {
			buf := make([]byte, sc.BufLens[e])
			for {
				n, err := conns[e].Read(buf)
				if err != nil {
					readErr[e] = err
					return
				}
				got[e] = append(got[e], append([]byte(nil), buf[:n]...))
				if len(got[e]) > 5000 {
					return // a Read that does not consume anything would spin for ever; the comparison below reports it
				}
			}
		})
	}
	}
	if !sc.Lazy {
		startReaders()
	}
	flush := func() bool {
		if sc.Lazy && readers[0] == nil {
			startReaders() // from the first flush on, readers wait in Read
		}
		for d := 0; d < 2; d++ {
			expect[1-d] = append(expect[1-d], models[d].queue...)
			models[d].queue = nil
		}
		br.Process()
		// Process returns when both queues are empty: everything queued has been handed over
		for e := 0; e < 2; e++ {
			if len(got[e]) != len(expect[e]) {
				// the reader may not have stored the last message yet: let it run
				env.Quiesce()
			}
		}
		return true
	}
	for i, o := range sc.Ops {
		if env.Failed() {
			return
		}
		d := o.Dir
		switch o.K {
		case "w":
			if lossAll && (models[d].dropN > 0 || models[d].reorderN > 0) {
				// Whether a write lost by the loss setting counts as one of the "next N writes" of a
				// pending DropNextNWrites/ReorderNextNWrites is not fixed by the contract (either
				// reading delivers "the written messages minus those the test asked to drop"):
				// such a write is not made.
				continue
			}
			b := msg(nextID, o.N)
			nextID++
			cp := append([]byte(nil), b...)
			if o.DLus > 0 {
				_ = conns[d].SetWriteDeadline(env.Now().Add(time.Duration(o.DLus) * time.Microsecond))
			}
			var n int
			var err error
			switch {
			case o.Via == 1 && !lossAll:
				// injected directly: the same scripted impairments apply
				if !br.Push(cp, d) {
					env.Fail("C18/bridge-write-failed", "op %d: Push for endpoint %d reported a closed bridge", i, d)
					return
				}
				n = len(cp)
				env.Probe("direct-push")
			case o.Via == 2 && len(b) == 0:
				n, err = conns[d].Write(nil)
				env.Probe("nil-write")
			default:
				n, err = conns[d].Write(cp)
			}
			if o.DLus > 0 {
				_ = conns[d].SetWriteDeadline(time.Time{})
			}
			for j := range cp {
				cp[j] = 0xEE
			}
			if o.DLus > 0 && err != nil && n == 0 {
				env.Probe("write-timed-out")
				continue // a write that reports a timeout and zero bytes has written nothing
			}
			if err != nil || n != len(b) {
				env.Fail("C18/bridge-write-failed", "op %d: Write on endpoint %d = (%d, %v)", i, d, n, err)
				return
			}
			if lossAll {
				env.Probe("write-under-total-loss")
				continue // asked for: every write is lost, and nothing else about the script changes
			}
			models[d].write(b)
		case "loss":
			if err := br.SetLossChance(o.N); err != nil {
				env.Fail("C18/bridge-loss-chance-refused", "op %d: SetLossChance(%d) = %v", i, o.N, err)
				return
			}
			lossAll = o.N == 100
		case "dropnext":
			br.DropNextNWrites(d, o.N)
			models[d].dropN = o.N
			if o.N < 0 {
				models[d].dropN = 0 // a negative count asks for nothing
			}
		case "reordernext":
			br.ReorderNextNWrites(d, o.N)
			models[d].reorderN = o.N
			if o.N == 0 {
				env.Probe("reorder-zero")
			}
		case "drop":
			q := models[d].queue
			if o.Off > len(q) {
				continue // beyond the queue: behaviour not specified
			}
			n := o.N
			if o.Off+n > len(q) {
				n = len(q) - o.Off
			}
			br.Drop(d, o.Off, o.N)
			models[d].queue = append(append([][]byte(nil), q[:o.Off]...), q[o.Off+n:]...)
		case "reorder":
			err := br.Reorder(d)
			q := models[d].queue
			if len(q) >= 2 {
				if err != nil {
					env.Fail("C18/reorder-error", "op %d: Reorder(%d) with %d queued messages: %v", i, d, len(q), err)
					return
				}
				for a, b := 0, len(q)-1; a < b; a, b = a+1, b-1 {
					q[a], q[b] = q[b], q[a]
				}
			}
		case "filter":
			br.Filter(d, pred(o.N))
			models[d].filter = pred(o.N)
		case "tick":
			// no reader is waiting (lazy mode before the first flush): nothing may leave the queues
			if sc.Lazy && readers[0] == nil {
				if n := br.Tick(); n != 0 {
					env.Fail("C18/bridge-tick-without-reader", "op %d: Tick handed over %d message(s) although no reader was waiting", i, n)
					return
				}
				env.Probe("tick-without-reader")
			}
		case "lossblip":
			br.SetLossChance(o.N)
			br.SetLossChance(0)
			if lossAll {
				br.SetLossChance(100)
			}
			env.Probe("loss-blip")
		case "cburst":
			if sc.Lazy || lossAll || models[d].dropN > 0 || models[d].reorderN > 0 || models[d].filter != nil {
				continue
			}
			flush()
			if env.Failed() {
				return
			}
			before := len(got[1-d])
			br.DropNextNWrites(d, o.Off)
			burst := map[string]bool{}
			var ws []*simrt.Handle
			for k := 0; k < o.N; k++ {
				b := msg(nextID, 16)
				nextID++
				burst[string(b)] = true
				cp := append([]byte(nil), b...)
				ws = append(ws, env.Go("burst-writer", func() { _, _ = conns[d].Write(cp) }))
			}
			env.Join(ws...)
			br.Process()
			env.Quiesce()
			wantN := o.N - o.Off
			if wantN < 0 {
				wantN = 0
			}
			newMsgs := got[1-d][before:]
			if len(newMsgs) != wantN {
				env.Fail("C18/bridge-drop-count", "op %d: %d concurrent writes in direction %d with DropNextNWrites(%d) armed delivered %d messages, want %d", i, o.N, d, o.Off, len(newMsgs), wantN)
				return
			}
			for _, m := range newMsgs {
				w := m
				_ = w
				okMsg := false
				for full := range burst {
					fb := []byte(full)
					if len(fb) > sc.BufLens[1-d] {
						fb = fb[:sc.BufLens[1-d]]
					}
					if bytes.Equal(fb, m) {
						okMsg = true
						delete(burst, full)
						break
					}
				}
				if !okMsg {
					env.Fail("C18/bridge-wrong-message", "op %d: a message read after the concurrent burst is none of the burst's messages (or one of them twice): %s", i, describe(m))
					return
				}
			}
			// what was delivered is part of the history: keep the expectation aligned with it
			expect[1-d] = append(expect[1-d], nil)
			expect[1-d] = expect[1-d][:len(expect[1-d])-1]
			for _, m := range newMsgs {
				full := append([]byte(nil), m...)
				expect[1-d] = append(expect[1-d], full)
			}
			if o.Off > o.N {
				// the remaining armed drops swallow the next writes of the script
				models[d].dropN = o.Off - o.N
			}
			env.Probe("concurrent-burst")
		case "tick1":
			if sc.Lazy {
				continue
			}
			env.Quiesce() // both readers wait in Read now
			want := 0
			for d := 0; d < 2; d++ {
				if len(models[d].queue) > 0 {
					want++
					expect[1-d] = append(expect[1-d], models[d].queue[0])
					models[d].queue = models[d].queue[1:]
				}
			}
			if n := br.Tick(); n != want {
				env.Fail("C18/bridge-tick-count", "op %d: Tick handed over %d message(s) with both readers waiting; %d of the two queues hold messages", i, n, want)
				return
			}
			env.Quiesce()
			env.Probe("single-tick")
		case "ttw":
			// two ticks and a write in one go, with two readers waiting on each endpoint: both
			// readers of an endpoint are handed a message before either has copied it, and the
			// bridge is already busy with the next write
			if sc.Lazy || !sc.Readers2 || lossAll {
				continue
			}
			env.Quiesce()
			for t := 0; t < 2; t++ {
				want := 0
				for dd := 0; dd < 2; dd++ {
					if len(models[dd].queue) > 0 {
						want++
						expect[1-dd] = append(expect[1-dd], models[dd].queue[0])
						models[dd].queue = models[dd].queue[1:]
					}
				}
				if n := br.Tick(); n != want {
					env.Fail("C18/bridge-tick-count", "op %d: Tick #%d of two handed over %d message(s) with two readers waiting on each endpoint; %d of the two queues hold messages", i, t+1, n, want)
					return
				}
			}
			b := msg(nextID, o.N)
			nextID++
			if n, err := conns[d].Write(append([]byte(nil), b...)); err != nil || n != len(b) {
				env.Fail("C18/bridge-write-failed", "op %d: Write on endpoint %d = (%d, %v)", i, d, n, err)
				return
			}
			models[d].write(b)
			env.Probe("tick-tick-write")
		case "process":
			if sc.Lazy && readers[0] == nil {
				continue // keep the queues untouched until the end of the script
			}
			flush()
		}
	}
	flush()
	env.Quiesce()
	if env.Failed() {
		return
	}
	for e := 0; e < 2; e++ {
		want := expect[e]
		if sc.Readers2 {
			// two readers record what they read in an order of their own: compare as multisets
			// (every message carries its number)
			want = append([][]byte(nil), want...)
			sort.SliceStable(want, func(i, j int) bool { return bytes.Compare(want[i], want[j]) < 0 })
			sort.SliceStable(got[e], func(i, j int) bool { return bytes.Compare(got[e][i], got[e][j]) < 0 })
			env.Probe("two-readers-per-endpoint")
		}
		for k := 0; k < len(want) || k < len(got[e]); k++ {
			switch {
			case k >= len(want):
				env.Fail("C18/bridge-extra-message", "endpoint %d read %d messages, script implies %d; extra message #%d: %s", e, len(got[e]), len(want), k, describe(got[e][k]))
				return
			case k >= len(got[e]):
				env.Fail("C18/bridge-message-missing", "endpoint %d read %d messages, script implies %d; missing #%d: %s (read so far: %s)", e, len(got[e]), len(want), k, describe(want[k]), describeAll(got[e]))
				return
			}
			w := want[k]
			if len(w) > sc.BufLens[e] {
				w = w[:sc.BufLens[e]]
				env.Probe("cut-to-slice")
			}
			if !bytes.Equal(got[e][k], w) {
				env.Fail("C18/bridge-wrong-message", "endpoint %d message #%d is %s, script implies %s (all read: %s)", e, k, describe(got[e][k]), describe(want[k]), describeAll(got[e]))
				return
			}
		}
	}
	// teardown: close both endpoints, tick until the readers have seen EOF
	_ = conns[0].Close()
	_ = conns[1].Close()
	for k := 0; k < 4; k++ {
		br.Tick()
	}
	env.Join(readers[0], readers[1])
	env.Join(readers2...)
	for e := 0; e < 2; e++ {
		if !errors.Is(readErr[e], io.EOF) {
			env.Fail("C18/bridge-close", "endpoint %d reader ended with %v, want EOF", e, readErr[e])
			return
		}
	}
}

func describe(b []byte) string {
	if len(b) >= 4 {
		return fmt.Sprintf("#%d(%dB)", binary.BigEndian.Uint32(b), len(b))
	}
	return fmt.Sprintf("?(%dB)", len(b))
}

func describeAll(bs [][]byte) string {
	s := "["
	for i, b := range bs {
		if i > 0 {
			s += " "
		}
		s += describe(b)
	}
	return s + "]"
}

func runDpipe(env *simrt.Env, sc *scenario) {
	a, b := dpipe.Pipe()
	ends := [2]net.Conn{a, b}
	var q [2][][]byte // q[e]: messages waiting to be read at endpoint e
	closed := [2]bool{}
	nextID := uint32(1)
	for i, o := range sc.Ops {
		e := o.Dir
		switch o.K {
		case "w":
			n := o.N
			m := harn.Bytes(uint64(nextID)+5, n)
			if n >= 4 {
				binary.BigEndian.PutUint32(m, nextID)
			}
			nextID++
			cp := append([]byte(nil), m...)
			wn, err := ends[e].Write(cp)
			for j := range cp {
				cp[j] = 0xEE
			}
			if closed[e] {
				if err == nil {
					env.Fail("C18/dpipe-write-after-close", "op %d: Write on closed end %d succeeded", i, e)
					return
				}
				continue
			}
			if err != nil || wn != n {
				env.Fail("C18/dpipe-write-failed", "op %d: Write(%d bytes) on end %d = (%d, %v) (other end closed: %v)", i, n, e, wn, err, closed[1-e])
				return
			}
			if len(q[1-e]) < 1000 {
				q[1-e] = append(q[1-e], m)
			}
		case "r":
			if closed[e] {
				_, err := ends[e].Read(make([]byte, 8))
				if !errors.Is(err, io.EOF) {
					env.Fail("C18/dpipe-read-after-close", "op %d: Read on closed end %d returned %v, want EOF", i, e, err)
					return
				}
				continue
			}
			if len(q[e]) == 0 {
				continue // would block
			}
			buf := make([]byte, o.N+4)
			for j := range buf {
				buf[j] = 0x77
			}
			n, err := ends[e].Read(buf[:o.N])
			want := q[e][0]
			q[e] = q[e][1:]
			if len(want) > o.N {
				want = want[:o.N]
				env.Probe("cut-to-slice")
			}
			if err != nil || n != len(want) || !bytes.Equal(buf[:n], want) {
				env.Fail("C18/dpipe-wrong-message", "op %d: Read(slice %d) on end %d = (%d, %v), want the next written message (%d bytes, cut to %d) (other end closed: %v)", i, o.N, e, n, err, len(q[e])+1, len(want), closed[1-e])
				return
			}
			if !bytes.Equal(buf[o.N:], []byte{0x77, 0x77, 0x77, 0x77}) {
				env.Fail("C18/dpipe-read-overrun", "op %d: Read wrote beyond its slice", i)
				return
			}
			if closed[1-e] {
				env.Probe("read-after-peer-closed")
			}
		case "wtimeout":
			// (dpipe discards what the refused writer has queued for its peer - write deadlines are
			// outside the property's histories - so this is only done with nothing pending that way;
			// what is queued *for* the refused writer must survive)
			if closed[e] || len(q[1-e]) > 0 {
				continue
			}
			_ = ends[e].SetWriteDeadline(env.Now().Add(-time.Second))
			wn, err := ends[e].Write(make([]byte, o.N))
			_ = ends[e].SetWriteDeadline(time.Time{})
			if err == nil || wn != 0 {
				env.Fail("C18/dpipe-write-past-deadline", "op %d: Write on end %d with a passed write deadline = (%d, %v), want a timeout", i, e, wn, err)
				return
			}
			env.Probe("write-refused-by-deadline")
		case "rtimeout":
			if closed[e] || len(q[e]) > 0 {
				continue
			}
			_ = ends[e].SetReadDeadline(env.Now().Add(time.Millisecond))
			n, err := ends[e].Read(make([]byte, 64))
			_ = ends[e].SetReadDeadline(time.Time{})
			if closed[1-e] && errors.Is(err, io.EOF) {
				continue
			}
			if err == nil {
				env.Fail("C18/dpipe-invented-message", "op %d: Read on end %d, to which nothing is queued, returned %d bytes", i, e, n)
				return
			}
		case "racyread":
			if closed[e] || closed[1-e] || len(q[e]) > 0 {
				continue
			}
			m := harn.Bytes(uint64(nextID)+5, o.N)
			binary.BigEndian.PutUint32(m, nextID)
			nextID++
			var rn int
			var rerr error
			rbuf := make([]byte, 2000)
			h := env.Go("racyreader", func() { rn, rerr = ends[e].Read(rbuf) })
			if _, err := ends[1-e].Write(append([]byte(nil), m...)); err != nil {
				env.Fail("C18/dpipe-write-failed", "op %d: Write on end %d: %v", i, 1-e, err)
				return
			}
			_ = ends[e].SetReadDeadline(env.Now().Add(-time.Second))
			env.Join(h)
			_ = ends[e].SetReadDeadline(time.Time{})
			switch {
			case rerr == nil:
				if !bytes.Equal(rbuf[:rn], m) {
					env.Fail("C18/dpipe-wrong-message", "op %d: the racing Read on end %d returned %d bytes, want the message just written (%d bytes)", i, e, rn, len(m))
					return
				}
				env.Probe("racy-read-got-message")
			default:
				q[e] = append(q[e], m) // timed out: the message must still be queued (the drain below / later reads find it)
				env.Probe("racy-read-timed-out")
			}
		case "close":
			if err := ends[e].Close(); err != nil {
				env.Fail("C18/dpipe-close", "op %d: Close: %v", i, err)
				return
			}
			closed[e] = true
		}
	}
	// drain
	for e := 0; e < 2; e++ {
		if closed[e] {
			continue
		}
		for len(q[e]) > 0 {
			buf := make([]byte, 100000)
			n, err := ends[e].Read(buf)
			if err != nil || !bytes.Equal(buf[:n], q[e][0]) {
				env.Fail("C18/dpipe-wrong-message", "drain: Read on end %d = (%d, %v), want %d bytes (other end closed: %v)", e, n, err, len(q[e][0]), closed[1-e])
				return
			}
			q[e] = q[e][1:]
		}
	}
	_ = a.Close()
	_ = b.Close()
}

func run(env *simrt.Env, sci interface{}) {
	sc := sci.(*scenario)
	if sc.Kind == "dpipe" {
		runDpipe(env, sc)
		return
	}
	runBridge(env, sc)
}

func shrinkSc(sci interface{}) []interface{} {
	sc := sci.(*scenario)
	var out []interface{}
	n := len(sc.Ops)
	for chunk := n / 2; chunk >= 1; chunk /= 2 {
		for i := 0; i+chunk <= n; i += chunk {
			c := *sc
			c.Ops = append(append([]op(nil), sc.Ops[:i]...), sc.Ops[i+chunk:]...)
			out = append(out, &c)
		}
	}
	for i, o := range sc.Ops {
		if o.N > 4 && o.K == "w" {
			c := *sc
			c.Ops = append([]op(nil), sc.Ops...)
			c.Ops[i].N = 4
			out = append(out, &c)
		}
	}
	if sc.BufLens != [2]int{2000, 2000} {
		c := *sc
		c.BufLens = [2]int{2000, 2000}
		out = append(out, &c)
	}
	return out
}

func nonTrivial(sci interface{}, res *simrt.Result) (bool, uint64) {
	sc := sci.(*scenario)
	h := uint64(1469598103934665603)
	w := 0
	for _, o := range sc.Ops {
		h = (h ^ uint64(o.K[0])<<40 ^ uint64(len(o.K))<<32 ^ uint64(o.Dir)<<24 ^ uint64(o.N)<<8 ^ uint64(o.Off)) * 1099511628211
		if o.K == "w" {
			w++
		}
	}
	if sc.Kind == "dpipe" {
		h ^= 0x5555
	}
	return w >= 2 && len(sc.Ops) >= 4, h
}

func TestSim(t *testing.T) {
	harn.Main(t, &harn.Spec{
		ID: "C18", Gen: gen, New: func() interface{} { return &scenario{} }, Run: run,
		Shrink: shrinkSc, NonTrivial: nonTrivial,
	})
}
