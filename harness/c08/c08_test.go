// C08 — packet buffer reads block only while empty and are always woken.
package c08

import (
	"encoding/binary"
	"errors"
	"fmt"
	"io"
	"net"
	"sort"
	"testing"
	"time"

	"github.com/pion/transport/v3/packetio"
	"github.com/pion/transport/v3/zzverif/harn"
	"github.com/pion/transport/v3/zzverif/simrt"
)

type reader struct {
	Reads  int `json:"reads"`
	BufLen int `json:"bufLen"` // 0 = large; small slices make Read return a short-buffer error
}

type writer struct {
	Lens    []int `json:"lens"`
	DelayUs int   `json:"delayUs,omitempty"` // waits this long first (every reader is blocked by then)
}

type dlOp struct {
	SleepUs int    `json:"sleepUs"`
	Kind    string `json:"kind"` // zero | past | future
	DurUs   int    `json:"durUs"`
}

type scenario struct {
	Readers     []reader `json:"readers"`
	Writers     []writer `json:"writers"`
	CloseEarly  bool     `json:"closeEarly"`  // a closer worker runs concurrently in phase 1
	CloseAfterUs int     `json:"closeAfterUs"`
	WriterCloses int     `json:"writerCloses,omitempty"` // k>0: writer #k-1 closes the buffer right after its last Write (the two wake-ups follow each other directly)
	Deadline    []dlOp   `json:"deadline"`    // one worker issuing SetReadDeadline calls
	CloseArmed  bool     `json:"closeArmed,omitempty"` // the final Close happens with a read deadline a millisecond ahead; once it has passed, reads fail with a timeout until it is cleared
	SeqPrefill  int      `json:"seqPrefill"`  // sequential sub-oracle: packets written and read back by main first
}

func gen(r *harn.Rng, tier string) interface{} {
	sc := &scenario{}
	nr := r.Range(1, 4)
	for i := 0; i < nr; i++ {
		sc.Readers = append(sc.Readers, reader{Reads: r.Range(1, 3), BufLen: r.Pick(0, 0, 0, 4, 5, 64)})
	}
	nw := r.Range(1, 3)
	for i := 0; i < nw; i++ {
		w := writer{}
		for j, n := 0, r.Range(1, 3); j < n; j++ {
			w.Lens = append(w.Lens, r.Pick(4, 5, 16, 100, 1200, 1022, 2046))
		}
		sc.Writers = append(sc.Writers, w)
	}
	if r.Bool(0.25) {
		sc.CloseEarly = true
		sc.CloseAfterUs = r.Pick(0, 0, 1, 50, 1000)
	}
	if !sc.CloseEarly && r.Bool(0.2) {
		sc.WriterCloses = 1 + r.Intn(nw)
	}
	if r.Bool(0.3) {
		for j, n := 0, r.Range(1, 3); j < n; j++ {
			op := dlOp{SleepUs: r.Pick(0, 0, 1, 20, 500), Kind: []string{"zero", "past", "future", "future", "unix0"}[r.Intn(5)], DurUs: r.Pick(1, 10, 100, 500, 5000)}
			sc.Deadline = append(sc.Deadline, op)
		}
	}
	if r.Bool(0.2) {
		sc.SeqPrefill = r.Range(1, 4)
	}
	sc.CloseArmed = r.Bool(0.25)
	if r.Bool(0.004) {
		// a crowd: more goroutines waiting in Read than a byte-sized counter can hold
		sc.Readers = nil
		for i, n := 0, 256+r.Pick(0, 0, 0, 1, 2, 256); i < n; i++ {
			sc.Readers = append(sc.Readers, reader{Reads: 1})
		}
		sc.Writers = []writer{{Lens: []int{r.Pick(4, 100), 16}[:r.Range(1, 2)], DelayUs: r.Pick(0, 1000, 1000)}}
		sc.CloseEarly, sc.WriterCloses, sc.Deadline, sc.SeqPrefill = false, 0, nil, 0
	}
	return sc
}

func isTimeout(err error) bool {
	var ne net.Error
	return errors.As(err, &ne) && ne.Timeout()
}

func run(env *simrt.Env, sci interface{}) {
	sc := sci.(*scenario)
	b := packetio.NewBuffer()
	type rec struct {
		id  uint32
		err string
	}
	var mu simrt.Mutex // protects the records below (held only without yields inside)
	_ = mu
	written := map[uint32]bool{}
	readBy := map[uint32]int{}
	var problems []string
	note := func(s string) { problems = append(problems, s) }

	nextID := uint32(1)
	mkPacket := func(n int) ([]byte, uint32) {
		if n < 4 {
			n = 4
		}
		p := harn.Bytes(uint64(nextID), n)
		binary.BigEndian.PutUint32(p, nextID)
		id := nextID
		nextID++
		return p, id
	}

	// sequential sub-oracle: with packets buffered and no deadline a Read never waits
	if sc.SeqPrefill > 0 {
		var ids []uint32
		for i := 0; i < sc.SeqPrefill; i++ {
			p, id := mkPacket(8 + i)
			if _, err := b.Write(p); err != nil {
				env.Fail("C08/write-failed", "prefill write: %v", err)
				return
			}
			ids = append(ids, id)
		}
		buf := make([]byte, 2048)
		// a passed read deadline makes Read fail with a timeout until the deadline is changed,
		// also while packets are buffered
		_ = b.SetReadDeadline(env.Now().Add(-time.Second))
		for k := 0; k < 2; k++ {
			if n, err := b.Read(buf); !isTimeout(err) {
				env.Fail("C08/no-timeout-after-deadline", "Read with a passed deadline and %d packets buffered returned (%d, %v), want a timeout error", len(ids), n, err)
				return
			}
		}
		_ = b.SetReadDeadline(time.Time{})
		for _, id := range ids {
			before := env.Blocks()
			n, err := b.Read(buf)
			if err != nil || n < 4 || binary.BigEndian.Uint32(buf) != id {
				env.Fail("C08/seq-read-wrong", "sequential read: n=%d err=%v want id %d", n, err, id)
				return
			}
			if env.Blocks() != before {
				env.Fail("C08/read-waited-with-data", "a Read waited although a packet was buffered and no deadline was set")
				return
			}
		}
	}

	// pre-assign packet ids per writer (deterministic)
	type wplan struct {
		pkts [][]byte
		ids  []uint32
	}
	plans := make([]wplan, len(sc.Writers))
	for i, w := range sc.Writers {
		for _, n := range w.Lens {
			p, id := mkPacket(n)
			plans[i].pkts = append(plans[i].pkts, p)
			plans[i].ids = append(plans[i].ids, id)
		}
	}

	var readers []*simrt.Handle
	readerState := make([]string, len(sc.Readers)) // "", "eof", "timeout", "done"
	for i := range sc.Readers {
		i := i
		readers = append(readers, env.Go(fmt.Sprintf("reader%d", i), func() {
			buf := make([]byte, 4096)
			if bl := sc.Readers[i].BufLen; bl > 0 {
				buf = make([]byte, bl)
			}
			for k := 0; k < sc.Readers[i].Reads; k++ {
				env.Enter("Read")
				n, err := b.Read(buf)
				env.Leave()
				if errors.Is(err, io.ErrShortBuffer) && n >= 4 {
					err = nil // the packet was consumed; its leading bytes identify it
					env.Probe("short-read")
				}
				if err != nil {
					switch {
					case errors.Is(err, io.EOF):
						readerState[i] = "eof"
					case isTimeout(err):
						readerState[i] = "timeout"
					default:
						note(fmt.Sprintf("reader %d: unexpected error %v", i, err))
						readerState[i] = "error"
					}
					return
				}
				if n < 4 {
					note(fmt.Sprintf("reader %d: short packet n=%d", i, n))
					return
				}
				readBy[binary.BigEndian.Uint32(buf)]++
			}
			readerState[i] = "done"
		}))
	}
	var others []*simrt.Handle
	closedEarly := false
	for i := range sc.Writers {
		i := i
		others = append(others, env.Go(fmt.Sprintf("writer%d", i), func() {
			if d := sc.Writers[i].DelayUs; d > 0 {
				env.Sleep(time.Duration(d) * time.Microsecond)
			}
			for k, p := range plans[i].pkts {
				cp := append([]byte(nil), p...)
				_, err := b.Write(cp)
				for j := range cp {
					cp[j] = 0xEE // the caller may reuse its slice
				}
				if err == nil {
					written[plans[i].ids[k]] = true
				} else if !errors.Is(err, io.ErrClosedPipe) {
					note(fmt.Sprintf("writer %d: unexpected error %v", i, err))
				}
			}
			if sc.WriterCloses == i+1 {
				_ = b.Close()
				closedEarly = true
			}
		}))
	}
	if sc.CloseEarly {
		others = append(others, env.Go("closer", func() {
			env.Sleep(time.Duration(sc.CloseAfterUs) * time.Microsecond)
			_ = b.Close()
			closedEarly = true
		}))
	}
	lastDeadlineZero := true
	if len(sc.Deadline) > 0 {
		others = append(others, env.Go("deadliner", func() {
			for _, op := range sc.Deadline {
				env.Sleep(time.Duration(op.SleepUs) * time.Microsecond)
				switch op.Kind {
				case "zero":
					_ = b.SetReadDeadline(time.Time{})
					lastDeadlineZero = true
				case "past":
					_ = b.SetReadDeadline(env.Now().Add(-time.Second))
					lastDeadlineZero = false
				case "unix0":
					_ = b.SetReadDeadline(time.Unix(0, 0)) // 1970-01-01 00:00:00 UTC: a passed deadline, not "none"
					lastDeadlineZero = false
				default:
					_ = b.SetReadDeadline(env.Now().Add(time.Duration(op.DurUs) * time.Microsecond))
					lastDeadlineZero = false
				}
			}
		}))
	}

	// phase 1: run to quiescence
	env.Quiesce()
	if env.Failed() {
		return
	}
	if len(problems) > 0 {
		env.Fail("C08/unexpected-error", "%v", problems)
		return
	}
	for _, h := range others {
		if !h.Finished() {
			env.Fail("C08/writer-stuck", "a writer/closer/deadline worker is still blocked at quiescence: %+v", blockedInfo(env))
			return
		}
	}
	blockedReaders := 0
	for _, w := range env.Snapshot() {
		if w.Op == "Read" && !w.Done {
			blockedReaders++
		}
	}
	count := b.Count()
	switch {
	case closedEarly && blockedReaders > 0:
		env.Fail("C08/reader-blocked-after-close", "%d reader(s) still inside Read at quiescence after Close returned (Count=%d): %+v", blockedReaders, count, blockedInfo(env))
		return
	case !lastDeadlineZero && blockedReaders > 0:
		env.Fail("C08/reader-blocked-past-deadline", "%d reader(s) still inside Read at quiescence although the last deadline set is non-zero and every timer has fired: %+v", blockedReaders, blockedInfo(env))
		return
	case blockedReaders > 0 && count > 0:
		env.Probe("lost-wakeup-window")
		env.Fail("C08/reader-parked-with-data", "%d reader(s) blocked inside Read at quiescence while Count=%d, buffer open, no deadline: %+v", blockedReaders, count, blockedInfo(env))
		return
	}
	if blockedReaders > 0 {
		env.Probe("readers-parked-on-empty")
	}

	// phase 2: close, everything must come back
	_ = b.SetReadDeadline(time.Time{})
	if sc.CloseArmed {
		_ = b.SetReadDeadline(env.Now().Add(time.Millisecond))
	}
	if err := b.Close(); err != nil {
		env.Fail("C08/close-error", "Close: %v", err)
		return
	}
	if err := b.Close(); err != nil {
		env.Fail("C08/close-error", "second Close: %v", err)
		return
	}
	env.Quiesce()
	for i, h := range readers {
		if !h.Finished() {
			env.Fail("C08/reader-blocked-after-close", "reader %d still inside Read after Close and quiescence: %+v", i, blockedInfo(env))
			return
		}
	}
	// drain what is left: remaining packets are still readable, then EOF for ever
	buf := make([]byte, 4096)
	if sc.CloseArmed {
		// Close does not change the deadline: it has passed by now (the system is quiescent)
		if _, err := b.Read(buf); !isTimeout(err) {
			env.Fail("C08/no-timeout-after-deadline", "the read deadline was a millisecond ahead when the buffer was closed and has passed since; Read returned %v, want a timeout error until the deadline is changed", err)
			return
		}
		_ = b.SetReadDeadline(time.Time{})
		env.Probe("deadline-passed-after-close")
	}
	for {
		n, err := b.Read(buf)
		if errors.Is(err, io.EOF) {
			break
		}
		if err != nil {
			env.Fail("C08/drain-error", "Read after Close: %v", err)
			return
		}
		if n >= 4 {
			readBy[binary.BigEndian.Uint32(buf)]++
		}
	}
	for i := 0; i < 2; i++ {
		if _, err := b.Read(buf); !errors.Is(err, io.EOF) {
			env.Fail("C08/no-eof", "Read after drain returned %v, want EOF", err)
			return
		}
	}
	if _, err := b.Write([]byte{1, 2, 3, 4}); err == nil {
		env.Fail("C08/write-after-close", "Write after Close succeeded")
		return
	}
	var ids []uint32
	for id := range written {
		ids = append(ids, id)
	}
	sort.Slice(ids, func(i, j int) bool { return ids[i] < ids[j] })
	for _, id := range ids {
		if readBy[id] != 1 {
			env.Fail("C08/not-exactly-once", "packet %d written successfully but read %d times", id, readBy[id])
			return
		}
	}
	var rids []uint32
	for id := range readBy {
		rids = append(rids, id)
	}
	sort.Slice(rids, func(i, j int) bool { return rids[i] < rids[j] })
	for _, id := range rids {
		if !written[id] {
			env.Fail("C08/phantom-packet", "packet %d read but its Write did not succeed", id)
			return
		}
	}
	if len(problems) > 0 {
		env.Fail("C08/unexpected-error", "%v", problems)
	}
}

func blockedInfo(env *simrt.Env) []string {
	var out []string
	for _, w := range env.Snapshot() {
		if !w.Done && w.ID != "0" {
			st := "parked"
			if w.Blocked {
				st = "blocked"
			}
			out = append(out, fmt.Sprintf("%s(%s) op=%s %s at %s", w.ID, w.Name, w.Op, st, w.Site))
		}
	}
	return out
}

func shrinkSc(sci interface{}) []interface{} {
	sc := sci.(*scenario)
	var out []interface{}
	clone := func() *scenario {
		c := *sc
		c.Readers = append([]reader(nil), sc.Readers...)
		c.Writers = nil
		for _, w := range sc.Writers {
			c.Writers = append(c.Writers, writer{Lens: append([]int(nil), w.Lens...), DelayUs: w.DelayUs})
		}
		c.Deadline = append([]dlOp(nil), sc.Deadline...)
		return &c
	}
	if sc.SeqPrefill > 0 {
		c := clone()
		c.SeqPrefill = 0
		out = append(out, c)
	}
	if sc.CloseEarly {
		c := clone()
		c.CloseEarly = false
		out = append(out, c)
	}
	if len(sc.Deadline) > 0 {
		c := clone()
		c.Deadline = nil
		out = append(out, c)
		for i := range sc.Deadline {
			c := clone()
			c.Deadline = append(c.Deadline[:i], c.Deadline[i+1:]...)
			out = append(out, c)
		}
	}
	for i := range sc.Readers {
		if len(sc.Readers) > 1 {
			c := clone()
			c.Readers = append(c.Readers[:i], c.Readers[i+1:]...)
			out = append(out, c)
		}
		if sc.Readers[i].Reads > 1 {
			c := clone()
			c.Readers[i].Reads--
			out = append(out, c)
		}
		if sc.Readers[i].BufLen != 0 {
			c := clone()
			c.Readers[i].BufLen = 0
			out = append(out, c)
		}
	}
	for i := range sc.Writers {
		if len(sc.Writers) > 1 {
			c := clone()
			c.Writers = append(c.Writers[:i], c.Writers[i+1:]...)
			out = append(out, c)
		}
		if len(sc.Writers[i].Lens) > 1 {
			c := clone()
			c.Writers[i].Lens = c.Writers[i].Lens[1:]
			out = append(out, c)
		}
		for j, n := range sc.Writers[i].Lens {
			if n > 4 {
				c := clone()
				c.Writers[i].Lens[j] = 4
				out = append(out, c)
			}
		}
	}
	return out
}

func TestSim(t *testing.T) {
	harn.Main(t, &harn.Spec{
		ID:     "C08",
		Gen:    gen,
		New:    func() interface{} { return &scenario{} },
		Run:    run,
		Shrink: shrinkSc,
	})
}
