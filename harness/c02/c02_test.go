// C02 — NAT address mapping follows the configured RFC 4787 mapping behaviour.
// C03 — NAT admits inbound datagrams only per its filtering rule, to the mapping owner.
//
// End-to-end through the public API: a root router with remote hosts, one NAT'd LAN
// router with internal hosts. A history of outbound / inbound / idle events is executed
// by one driver; after each datagram the system runs until nothing can happen within
// 1 µs of simulated time, then every socket's inbox is compared with a reference NAT
// model that learns external ports from observation (it never predicts port numbers)
// and treats mapping liveness as three-valued around the lifetime boundary.
package c02

import (
	"strings"
	"bytes"
	"encoding/binary"
	"fmt"
	"net"
	"os"
	"sort"
	"testing"
	"time"

	"github.com/pion/logging"
	"github.com/pion/transport/v3/vnet"
	"github.com/pion/transport/v3/zzverif/harn"
	"github.com/pion/transport/v3/zzverif/simrt"
)

var prop = func() string {
	if p := os.Getenv("VERIF_PROP"); p != "" {
		return p
	}
	return "C02"
}()

type event struct {
	K      string `json:"k"`   // out | in | idle
	Int    int    `json:"int"` // internal socket index
	Rem    int    `json:"rem"` // remote socket index
	RemPort int   `json:"remPort,omitempty"` // out: explicit destination port (0 = the remote socket's), for unbound ports
	Target string `json:"target,omitempty"` // in: "map:<n>" n-th learned external address (mod), "fresh" never-allocated port, "unpaired" IP
	IdleNs int64  `json:"idleNs,omitempty"`
	Blocked bool  `json:"blocked,omitempty"` // out: a chunk filter on the NAT router discards this datagram; it must leave no trace (no mapping, no permission, no refresh)
	Race   bool   `json:"race,omitempty"` // out: while it is written, the remote it goes to sends a datagram to the external address this flow had last (inbound and outbound translation of one flow run side by side)
	Pre    int    `json:"pre,omitempty"` // out, 1:1 mode: this many datagrams from a local IP without a pair are written right before it (the NAT refuses them; what queues up behind them is still forwarded)
	Form   int    `json:"form,omitempty"` // representation of the destination IP handed to WriteTo: 0 as stored, 1 four-byte, 2 sixteen-byte
}

type scenario struct {
	OneToOne  int     `json:"oneToOne"` // 0 = NAPT, k = 1:1 mode with k IP pairs
	Mapping   int     `json:"mapping"`  // 0 independent, 1 address, 2 address+port
	Filtering int     `json:"filtering"`
	LifeNs    int64   `json:"lifeNs"`
	Internal  int     `json:"internal"` // number of internal sockets (two per host)
	Remotes   int     `json:"remotes"`  // number of remote sockets (two per host: same IP, other port)
	Events    []event `json:"events"`
	Forever   bool    `json:"forever,omitempty"` // MappingLifeTime is the largest Duration ("never expires"); the idle periods keep following lifeNs
	NatDelayNs int64  `json:"natDelayNs,omitempty"` // MinDelay of the NAT router: it handles an outbound datagram no sooner than this after the write
	PairMix   int     `json:"pairMix,omitempty"` // 1:1 mode: 0 pairs listed ascending, 1 listed in reverse order, 2 crossed (lowest external IP with highest local IP)
	RemoteSet int     `json:"remoteSet,omitempty"` // which set of remote host addresses (see remoteSets)
	Exhaust   bool    `json:"exhaust"` // first create 16385 mappings towards distinct remote ports
	TwoIPs    bool    `json:"twoIPs"`  // the NAPT router holds two addresses on its parent network
}

func gen(r *harn.Rng, tier string) interface{} {
	sc := &scenario{Mapping: r.Intn(3), Filtering: r.Intn(3), LifeNs: int64(r.Pick(50, 1000, 30000)) * 1e6,
		Internal: r.Range(1, 4), Remotes: r.Range(1, 4)}
	if r.Bool(0.15) {
		sc.OneToOne = r.Pick(1, 2, 3, 8)
		sc.Internal = 2 * sc.OneToOne
		if sc.Internal > 6 {
			sc.Internal = 6
		}
	}
	if sc.OneToOne == 0 && r.Bool(0.25) {
		sc.TwoIPs = true
	}
	sc.RemoteSet = r.Pick(0, 1, 0, 1, 2)
	sc.PairMix = r.Pick(0, 0, 1, 2)
	if r.Bool(0.2) {
		sc.NatDelayNs = sc.LifeNs / int64(r.Pick(2, 4, 10))
	} else if r.Bool(0.08) {
		sc.Forever = true
	}
	if (tier == "thorough" && r.Bool(0.02)) || r.Bool(0.0015) || os.Getenv("VERIF_C02_EXHAUST") != "" {
		sc.Exhaust = true
		sc.Forever = false
		sc.NatDelayNs = 0
		sc.Mapping = 2
		sc.OneToOne = 0
		sc.LifeNs = 30000 * 1e6 // the bursts take simulated time; the reused mapping must outlive them
	}
	n := r.Range(2, 25)
	if tier == "thorough" && r.Bool(0.2) {
		n = r.Range(25, 60)
	}
	L := sc.LifeNs
	for i := 0; i < n; i++ {
		x := r.Intn(100)
		switch {
		case x < 45:
			e := event{K: "out", Int: r.Intn(sc.Internal), Rem: r.Intn(sc.Remotes), Form: r.Pick(0, 0, 1, 2), Race: r.Bool(0.15)}
			if r.Bool(0.1) {
				e.RemPort = 9999 // unbound port on the remote host
			}
			if r.Bool(0.08) {
				e.Blocked, e.Race = true, false
			}
			if sc.OneToOne > 0 && !e.Blocked && r.Bool(0.3) {
				e.Pre = r.Pick(2, 2, 3, 5)
			}
			sc.Events = append(sc.Events, e)
			if r.Bool(0.04) {
				// more remotes than a small fixed-size permission table holds: nine unbound ports
				for k := 0; k < 9; k++ {
					sc.Events = append(sc.Events, event{K: "out", Int: e.Int, Rem: e.Rem, RemPort: 9100 + k})
				}
			}
		case x < 80:
			e := event{K: "in", Rem: r.Intn(sc.Remotes), Form: r.Pick(0, 0, 1, 2)}
			switch r.Intn(10) {
			case 0:
				e.Target = "fresh"
			case 1:
				e.Target = "unpaired"
			case 3:
				if r.Bool(0.5) {
					// a learned external address with its port lowered by a multiple of 16384: tables
					// indexed by a few bits of the port must not confuse it with the mapping's own port
					e.Target = fmt.Sprintf("low:%d:%d", r.Intn(6), r.Range(1, 3))
				} else {
					e.Target = fmt.Sprintf("map:%d", r.Intn(6))
				}
			case 2:
				e.Target = fmt.Sprintf("alt:%d", r.Intn(6)) // a learned port on another address of the router
			default:
				e.Target = fmt.Sprintf("map:%d", r.Intn(6))
			}
			sc.Events = append(sc.Events, e)
		default:
			var d int64
			switch r.Intn(8) {
			case 0:
				d = L - 1e6
			case 1:
				d = L
			case 2:
				d = L + 1e6
			case 3:
				d = L * 6 / 10
			case 4:
				d = 2 * L
			case 5:
				d = L / 2
			default:
				d = int64(r.Intn(int(L/1e6)+1)) * 1e6
			}
			if d < 0 {
				d = 0
			}
			sc.Events = append(sc.Events, event{K: "idle", IdleNs: d})
			if r.Bool(0.12) {
				// the routers are stopped and started again while nothing is under way: what the NAT
				// knows (mappings, their age, permissions) is not touched by that
				sc.Events = append(sc.Events, event{K: "restart"})
			}
		}
	}
	return sc
}

type inboxItem struct {
	payload []byte
	src     string
}

type sockT struct {
	conn  net.PacketConn
	addr  *net.UDPAddr
	inbox []inboxItem
	read  int // items already consumed by the oracle
	h     *simrt.Handle
}

// mapping of the reference model
type mappingT struct {
	internal string // internal ip:port
	bound    string
	ext      string // learned external address
	perms    map[string]bool
	maybe    map[string]bool // permissions the real mapping may hold in addition (it may still be an older one whose fate the model could not decide)
	// the last refresh happened within [r0, r1] (virtual clock)
	r0, r1 time.Time
	dead   bool // definitely expired and replaced
}

const (
	alive = iota
	expired
	unknown
)

func quietLF() *logging.DefaultLoggerFactory {
	lf := logging.NewDefaultLoggerFactory()
	lf.DefaultLogLevel = logging.LogLevelDisabled
	return lf
}

// ipForm returns the same IPv4 address in another in-memory representation.
func ipForm(ip net.IP, form int) net.IP {
	switch form {
	case 1:
		if v := ip.To4(); v != nil {
			return v
		}
	case 2:
		if v := ip.To16(); v != nil {
			return v
		}
	}
	return ip
}

func part(kind int, a *net.UDPAddr) string {
	switch kind {
	case 1:
		return a.IP.String()
	case 2:
		return a.String()
	}
	return ""
}

func run(env *simrt.Env, sci interface{}) {
	sc := sci.(*scenario)
	c02, c03 := prop == "C02", prop == "C03"
	L := time.Duration(sc.LifeNs)
	natL := L
	if sc.Forever {
		natL = time.Duration(1<<63 - 1)
	}
	wan, err := vnet.NewRouter(&vnet.RouterConfig{CIDR: "0.0.0.0/1", LoggerFactory: quietLF()})
	if err != nil {
		env.Infra("NewRouter: %v", err)
		return
	}
	nt := &vnet.NATType{MappingBehavior: vnet.EndpointDependencyType(sc.Mapping), FilteringBehavior: vnet.EndpointDependencyType(sc.Filtering), MappingLifeTime: natL}
	lanCfg := &vnet.RouterConfig{CIDR: "192.168.0.0/24", StaticIPs: []string{"1.2.3.1"}, NATType: nt, MinDelay: time.Duration(sc.NatDelayNs), LoggerFactory: quietLF()}
	pairExt := map[string]string{} // local ip -> external ip (1:1)
	pairLoc := map[string]string{}
	if sc.OneToOne > 0 {
		nt.Mode = vnet.NATModeNAT1To1
		lanCfg.StaticIPs = nil
		for k := 0; k < sc.OneToOne; k++ {
			ext, loc := fmt.Sprintf("1.2.3.%d", 1+k), fmt.Sprintf("192.168.0.%d", 1+k)
			if sc.PairMix == 2 {
				loc = fmt.Sprintf("192.168.0.%d", sc.OneToOne-k)
			}
			if sc.PairMix == 1 {
				lanCfg.StaticIPs = append([]string{ext + "/" + loc}, lanCfg.StaticIPs...)
			} else {
				lanCfg.StaticIPs = append(lanCfg.StaticIPs, ext+"/"+loc)
			}
			pairExt[loc], pairLoc[ext] = ext, loc
		}
	}
	extIPs := map[string]bool{"1.2.3.1": true}
	if sc.TwoIPs && sc.OneToOne == 0 {
		lanCfg.StaticIPs = []string{"1.2.3.1", "1.2.3.2"}
		extIPs["1.2.3.2"] = true
	}
	lan, err := vnet.NewRouter(lanCfg)
	if err != nil {
		env.Infra("NewRouter lan: %v", err)
		return
	}
	if err := wan.AddRouter(lan); err != nil {
		env.Infra("AddRouter: %v", err)
		return
	}
	// datagrams marked "BLKD" are discarded by a chunk filter of the NAT router
	lan.AddChunkFilter(func(c vnet.Chunk) bool {
		d := c.UserData()
		if len(d) >= 8 && string(d[4:8]) == "BLKD" {
			simrt.CountFault("outbound-blocked-by-filter")
			return false
		}
		return true
	})
	var internals, remotes []*sockT
	mkHost := func(rt *vnet.Router, ip string, ports ...int) []*sockT {
		n, err := vnet.NewNet(&vnet.NetConfig{StaticIPs: []string{ip}})
		if err != nil {
			env.Infra("NewNet: %v", err)
			return nil
		}
		if err := rt.AddNet(n); err != nil {
			env.Infra("AddNet(%s): %v", ip, err)
			return nil
		}
		var out []*sockT
		for _, p := range ports {
			a := &net.UDPAddr{IP: net.ParseIP(ip), Port: p}
			c, err := n.ListenUDP("udp", a)
			if err != nil {
				env.Infra("ListenUDP: %v", err)
				return nil
			}
			out = append(out, &sockT{conn: c, addr: a})
		}
		return out
	}
	// internal hosts: two sockets per host; in 1:1 mode the first hosts own the paired local IPs
	for h := 0; len(internals) < sc.Internal; h++ {
		p2 := 5001
		if sc.RemoteSet == 2 {
			// 192.168.0.1:5000 towards 11.2.3.100 and 192.168.0.1:50001 towards 1.2.3.100 spell the
			// same string when port and remote address are joined without a separator
			p2 = 50001
		}
		ss := mkHost(lan, fmt.Sprintf("192.168.0.%d", 1+h), 5000, p2)
		if ss == nil {
			return
		}
		internals = append(internals, ss...)
	}
	internals = internals[:sc.Internal]
	// 1:1 mode: one more local host, whose address has no pair (the NAT refuses what it sends)
	var unp *sockT
	if sc.OneToOne > 0 {
		if ss := mkHost(lan, "192.168.0.200", 5000); ss != nil {
			unp = ss[0]
			defer func() { _ = unp.conn.Close() }()
		}
	}
	// 1.2.3.10 is a textual prefix of 1.2.3.100 and 1.2.3.101: keys built from strings must not confuse them
	// set 1: addresses that agree in their low 16 bits / differ only in one high octet: keys packed into integers must not truncate them
	remoteIPs := [][]string{{"1.2.3.100", "1.2.3.10", "1.2.3.101"}, {"1.2.3.100", "1.9.3.100", "1.200.3.100"}, {"11.2.3.100", "1.2.3.100", "1.2.3.10"}}[sc.RemoteSet%3]
	for h := 0; len(remotes) < sc.Remotes; h++ {
		ss := mkHost(wan, remoteIPs[h%len(remoteIPs)], 7000, 7001)
		if ss == nil {
			return
		}
		remotes = append(remotes, ss...)
	}
	remotes = remotes[:sc.Remotes]
	if err := wan.Start(); err != nil {
		env.Infra("Start: %v", err)
		return
	}
	all := append(append([]*sockT(nil), internals...), remotes...)
	for i, s := range all {
		s := s
		s.h = env.Go(fmt.Sprintf("reader%d", i), func() {
			buf := make([]byte, 2000)
			for {
				n, from, err := s.conn.ReadFrom(buf)
				if err != nil {
					return
				}
				s.inbox = append(s.inbox, inboxItem{payload: append([]byte(nil), buf[:n]...), src: from.String()})
			}
		})
	}
	// A router that finds a chunk queued during its current pass sleeps for the (virtual) time
	// the pass has taken so far before it forwards it: "nothing happens any more" therefore
	// needs a quiet period longer than a pass. Single datagrams: 100 us; bursts: 1 s.
	quiet := 100 * time.Microsecond
	natDelay := time.Duration(sc.NatDelayNs)
	settle := func() {
		q := quiet
		if q < 3*natDelay {
			q = 3 * natDelay // datagrams wait in the NAT router for its minimum delay
		}
		env.QuiesceWithin(q)
	}

	var maps []*mappingT          // all mappings ever learned, in order of creation
	var learned []string          // external addresses learned, in order
	nextTag := uint32(1)
	mkPayload := func() ([]byte, uint32) {
		p := harn.Bytes(uint64(nextTag)+11, 16)
		binary.BigEndian.PutUint32(p, nextTag)
		p[4] = 0 // never the marker of blocked datagrams
		nextTag++
		return p, nextTag - 1
	}
	// receivedBy returns who received tag (and the source they saw); anything else that
	// arrived since the last call is a violation
	ignoreTags := map[uint32]bool{} // datagrams whose fate is not judged (racing inbound)
	collect := func(tag uint32, want []byte) (who []*sockT, src string, ok bool) {
		for _, s := range all {
			for s.read < len(s.inbox) {
				it := s.inbox[s.read]
				s.read++
				if len(it.payload) >= 4 && ignoreTags[binary.BigEndian.Uint32(it.payload)] {
					continue
				}
				if len(it.payload) >= 4 && binary.BigEndian.Uint32(it.payload) == tag {
					if !bytes.Equal(it.payload, want) {
						env.Fail(prop+"/payload-changed", "datagram %d arrived at %s with a different payload", tag, s.addr)
						return nil, "", false
					}
					who = append(who, s)
					src = it.src
					continue
				}
				env.Fail(prop+"/stray-datagram", "socket %s received a datagram (%d bytes from %s) that no event accounts for", s.addr, len(it.payload), it.src)
				return nil, "", false
			}
		}
		return who, src, true
	}
	liveness := func(m *mappingT, u0, u1 time.Time) int {
		if m.dead {
			return expired
		}
		if sc.Forever {
			return alive
		}
		if !u1.After(m.r0.Add(L)) {
			return alive
		}
		if u0.After(m.r1.Add(L)) {
			return expired
		}
		return unknown
	}
	if sc.Exhaust {
		quiet = time.Second
		// more mappings than ports in the dynamic range: address-and-port dependent mapping
		// towards 16385 distinct remote ports
		src := internals[0]
		// one flow of the same socket goes to a bound remote: it is the oldest entry of the tables and
		// is observed again in the later phases
		var r2 *sockT
		if len(remotes) >= 2 {
			r2 = remotes[len(remotes)-1]
			pl, _ := mkPayload()
			_, _ = src.conn.WriteTo(pl, r2.addr)
		}
		for p := 0; p < 16385; p++ {
			pl, _ := mkPayload()
			if _, err := src.conn.WriteTo(pl, &net.UDPAddr{IP: net.ParseIP("1.2.3.100"), Port: 20000 + p}); err != nil {
				env.Fail(prop+"/write-failed", "WriteTo: %v", err)
				return
			}
			if p%64 == 0 {
				settle()
			}
		}
		settle()
		for _, s := range all {
			s.read = len(s.inbox)
		}
		// let all of them expire: whatever the NAT did when it ran out of ports, afterwards
		// new mappings must work again and must carry valid ports
		env.Sleep(2*L + time.Millisecond)
		env.Probe("mappings>16384")
		// ports are being reused now: a new mapping, then every old flow becomes active again
		// (each gets a new mapping of its own); the new mapping must stay intact
		if len(internals) > 0 && len(remotes) > 0 {
			is, rs := internals[len(internals)-1], remotes[0]
			pl, tag := mkPayload()
			v0 := env.Now()
			_, _ = is.conn.WriteTo(append([]byte(nil), pl...), rs.addr)
			settle()
			who, srcX, ok := collect(tag, pl)
			if !ok {
				return
			}
			if len(who) != 1 || who[0] != rs {
				env.Fail(prop+"/outbound-lost", "after %d expired mappings a datagram from %s to the bound socket %s was received by %d sockets", 16385, is.addr, rs.addr, len(who))
				return
			}
			srcX2 := ""
			if r2 != nil && r2 != rs && src != is {
				pl, tag := mkPayload()
				_, _ = src.conn.WriteTo(append([]byte(nil), pl...), r2.addr)
				settle()
				who, sx, ok := collect(tag, pl)
				if !ok {
					return
				}
				if len(who) == 1 && who[0] == r2 {
					srcX2 = sx
				}
			}
			quiet = time.Millisecond
			for p := 0; p < 16385; p++ {
				pl2, _ := mkPayload()
				_, _ = src.conn.WriteTo(pl2, &net.UDPAddr{IP: net.ParseIP("1.2.3.100"), Port: 20000 + p})
				if p%64 == 0 {
					settle()
				}
			}
			quiet = 5 * time.Second
			settle()
			for _, s := range all {
				s.read = len(s.inbox)
			}
			if srcX2 != "" && env.Now().Sub(v0) < L-time.Millisecond {
				// the flow observed before the burst sends again within its lifetime: same external address
				pl, tag := mkPayload()
				_, _ = src.conn.WriteTo(append([]byte(nil), pl...), r2.addr)
				quiet = time.Second
				settle()
				who, sx, ok := collect(tag, pl)
				if !ok {
					return
				}
				if len(who) != 1 || who[0] != r2 || sx != srcX2 {
					env.Fail(prop+"/mapping-not-kept", "the flow %s -> %s had the external address %s; %v later (lifetime %v), after %d other flows of the same socket had become active again, its next datagram was received by %d sockets with source %q", src.addr, r2.addr, srcX2, env.Now().Sub(v0), L, 16385, len(who), sx)
					return
				}
				env.Probe("old-flow-kept-across-burst")
			}
			if env.Now().Sub(v0) < L-time.Millisecond {
				x, err := net.ResolveUDPAddr("udp", srcX)
				if err == nil {
					pl3, tag3 := mkPayload()
					_, _ = rs.conn.WriteTo(append([]byte(nil), pl3...), x)
					quiet = time.Second
					settle()
					who, _, ok := collect(tag3, pl3)
					if !ok {
						return
					}
					if len(who) != 1 || who[0] != is {
						env.Fail(prop+"/live-mapping-disturbed", "a mapping created for %s on the reused external address %s stopped admitting its own remote %s after %d expired flows were re-activated (received by %d sockets)", is.addr, srcX, rs.addr, 16385, len(who))
						return
					}
					env.Probe("reused-port-intact")
					// every port is held by a live mapping: a further flow is refused (or served); twice,
					// because a refusal must not leave anything behind that the flow's next datagram uses
					if src != is {
						for k := 0; k < 2; k++ {
							plx, tagx := mkPayload()
							_, _ = src.conn.WriteTo(append([]byte(nil), plx...), rs.addr)
							settle()
							whox, srcx, ok := collect(tagx, plx)
							if !ok {
								return
							}
							if len(whox) > 1 || (len(whox) == 1 && whox[0] != rs) {
								env.Fail(prop+"/misdelivered", "with every external port in use, datagram #%d of a new flow %s -> %s was received by %d sockets", k+1, src.addr, rs.addr, len(whox))
								return
							}
							if len(whox) == 1 {
								ua, err := net.ResolveUDPAddr("udp", srcx)
								if err != nil || !extIPs[ua.IP.String()] || ua.Port < 1 || ua.Port > 65535 {
									env.Fail(prop+"/invalid-external-address", "with every external port in use, datagram #%d of a new flow %s -> %s reached the receiver with source %q; want an address of the NAT router with a valid port (or no delivery)", k+1, src.addr, rs.addr, srcx)
									return
								}
								if srcx == srcX {
									env.Fail(prop+"/external-address-shared", "with every external port in use, a new flow of %s was given the external address %s that the live mapping of %s holds", src.addr, srcx, is.addr)
									return
								}
							}
						}
						env.Probe("flow-refused-twice")
					}
					// every port is held by a live mapping now. At 0.6 L another endpoint needs a
					// mapping (the search passes over all of them); at 1.2 L without outbound traffic
					// the mapping of `is` must have ended: its remote is no longer admitted.
					v1 := env.Now()
					if d := v0.Add(L * 6 / 10).Sub(v1); d > 0 {
						env.Sleep(d)
						pl4, _ := mkPayload()
						_, _ = internals[0].conn.WriteTo(pl4, &net.UDPAddr{IP: net.ParseIP("1.2.3.100"), Port: 39999})
						settle()
						for _, s := range all {
							s.read = len(s.inbox)
						}
						if d2 := v1.Add(L + 5*time.Second).Sub(env.Now()); d2 > 0 {
							env.Sleep(d2) // v1 is later than the mapping's last refresh
						}
						pl5, tag5 := mkPayload()
						_, _ = rs.conn.WriteTo(append([]byte(nil), pl5...), x)
						settle()
						who, _, ok := collect(tag5, pl5)
						if !ok {
							return
						}
						if len(who) != 0 {
							env.Fail(prop+"/inbound-admitted-by-expired-mapping", "the mapping of %s on %s saw no outbound traffic for more than its lifetime (%v), only another endpoint's search for a free port in between; its remote %s is still admitted", is.addr, srcX, L, rs.addr)
							return
						}
						env.Probe("port-search-does-not-refresh")
					}
				}
			}
			// forget everything the model learned in this phase: these flows are not part of the history
			env.Sleep(2*L + time.Millisecond)
			// Once more, with mappings of different age: 65 flows, half a lifetime later the rest (the
			// ports run out, the last flows are refused). When the 65 oldest have been idle for a
			// full lifetime their ports are free again: a new flow is translated although the
			// youngest mappings still have half their lifetime ahead of them.
			if is != src {
				quiet = time.Millisecond
				var tOldest time.Time
				srcX3 := ""
				for p := 0; p < 16390; p++ {
					plz, _ := mkPayload()
					_, _ = src.conn.WriteTo(plz, &net.UDPAddr{IP: net.ParseIP("1.2.3.100"), Port: 20000 + p})
					if p%64 == 0 {
						settle()
						if p == 64 {
							tOldest = env.Now()
							if srcX2 != "" {
								// the observed flow comes back after its mapping has expired (new external address)
								pl, tag := mkPayload()
								_, _ = src.conn.WriteTo(append([]byte(nil), pl...), r2.addr)
								settle()
								who, sx, ok := collect(tag, pl)
								if !ok {
									return
								}
								srcX3 = ""
								if len(who) == 1 && who[0] == r2 {
									srcX3 = sx
								}
							}
							env.Sleep(L / 2)
						}
					}
				}
				settle()
				for _, s := range all {
					s.read = len(s.inbox)
				}
				if srcX3 != "" && env.Now().Sub(tOldest) < L-time.Second {
					// half a lifetime later, after thousands of other mappings were created (the port
					// search came past every port once), it still has that address
					pl, tag := mkPayload()
					_, _ = src.conn.WriteTo(append([]byte(nil), pl...), r2.addr)
					settle()
					who, sx, ok := collect(tag, pl)
					if !ok {
						return
					}
					if len(who) != 1 || who[0] != r2 || sx != srcX3 {
						env.Fail(prop+"/mapping-not-kept", "the flow %s -> %s came back after its mapping had expired and was given the external address %s; %v later (lifetime %v), after %d further mappings had been created, its next datagram was received by %d sockets with source %q", src.addr, r2.addr, srcX3, env.Now().Sub(tOldest), L, 16325, len(who), sx)
						return
					}
					env.Probe("returning-flow-kept-across-burst")
				}
				if d := tOldest.Add(L + time.Millisecond).Sub(env.Now()); d > 0 && d < L/2+time.Second {
					env.Sleep(d)
					plz, tagz := mkPayload()
					_, _ = is.conn.WriteTo(append([]byte(nil), plz...), rs.addr)
					settle()
					who, _, ok := collect(tagz, plz)
					if !ok {
						return
					}
					if len(who) != 1 || who[0] != rs {
						env.Fail(prop+"/outbound-lost", "every port was taken and new flows had been refused; %v later the 65 oldest mappings have been idle for a full lifetime (%v; their ports are free), yet a datagram of a new flow from %s to the bound socket %s was received by %d sockets", env.Now().Sub(tOldest), L, is.addr, rs.addr, len(who))
						return
					}
					env.Probe("port-freed-by-oldest-mappings")
				}
				env.Sleep(2*L + time.Millisecond)
			}
		}
		quiet = 100 * time.Microsecond
	}

	for ei, e := range sc.Events {
		if env.Failed() {
			return
		}
		switch e.K {
		case "idle":
			env.Sleep(time.Duration(e.IdleNs))
		case "restart":
			settle()
			if err := wan.Stop(); err != nil {
				env.Infra("Stop: %v", err)
				return
			}
			if err := wan.Start(); err != nil {
				env.Infra("Start: %v", err)
				return
			}
			env.Fault("routers-restarted")
		case "out":
			is, rs := internals[e.Int%len(internals)], remotes[e.Rem%len(remotes)]
			dst := &net.UDPAddr{IP: rs.addr.IP, Port: rs.addr.Port}
			if e.RemPort != 0 {
				dst.Port = e.RemPort
			}
			dst.IP = append(net.IP(nil), ipForm(dst.IP, e.Form)...) // the application's own memory, reused below
			pl, tag := mkPayload()
			if e.Blocked {
				copy(pl[4:8], "BLKD")
				_, _ = is.conn.WriteTo(append([]byte(nil), pl...), dst)
				settle()
				who, _, ok := collect(tag, pl)
				if !ok {
					return
				}
				if len(who) > 0 {
					env.Fail(prop+"/misdelivered", "event %d: a datagram the NAT router's chunk filter discards was received by %s", ei, who[0].addr)
					return
				}
				continue // no mapping, no permission, no refresh: the model does not change
			}
			var racer *simrt.Handle
			var racePl []byte
			var raceTag uint32
			if e.Race && sc.OneToOne == 0 && e.RemPort == 0 {
				// the last external address known for this flow (live or not)
				key := is.addr.String() + "|" + part(sc.Mapping, dst)
				var last *mappingT
				for _, m := range maps {
					if m.internal+"|"+m.bound == key && m.ext != "?" && m.ext != "" {
						last = m
					}
				}
				if last != nil {
					if x, err := net.ResolveUDPAddr("udp", last.ext); err == nil {
						racePl, raceTag = mkPayload()
						ignoreTags[raceTag] = true
						cp := append([]byte(nil), racePl...)
						racer = env.Go("racing-inbound", func() { _, _ = rs.conn.WriteTo(cp, x) })
						env.Fault("inbound-races-outbound")
					}
				}
			}
			if e.Pre > 0 && unp != nil {
				// refused datagrams queue up in front of this one: nobody may receive them (a stray
				// datagram is reported by collect), and this one is forwarded all the same
				for k := 0; k < e.Pre; k++ {
					plx, _ := mkPayload()
					_, _ = unp.conn.WriteTo(plx, dst)
				}
				env.Fault("refused-datagrams-queued-ahead")
			}
			u0 := env.Now()
			if _, err := is.conn.WriteTo(append([]byte(nil), pl...), dst); err != nil {
				env.Fail(prop+"/write-failed", "event %d: WriteTo: %v", ei, err)
				return
			}
			if racer != nil {
				env.Join(racer)
			}
			settle()
			_, _ = racePl, raceTag // whether the racing datagram was admitted depends on the order: not judged
			u1 := env.Now()
			if natDelay > 0 && u0.Add(natDelay).Before(u1) {
				u0 = u0.Add(natDelay) // the NAT router handles it no sooner than its minimum delay after the write
			}
			who, src, ok := collect(tag, pl)
			if !ok {
				return
			}
			// the datagram has been dealt with: the application reuses the address it passed to WriteTo
			// (whatever the NAT remembers about the destination is the NAT's own copy)
			wrote := append(net.IP(nil), dst.IP...)
			for i := range dst.IP {
				dst.IP[i] ^= 0x5A
			}
			dst = &net.UDPAddr{IP: wrote, Port: dst.Port}
			// who should get it
			var want *sockT
			for _, s := range remotes {
				if s.addr.String() == dst.String() {
					want = s
				}
			}
			if sc.OneToOne > 0 {
				ext, paired := pairExt[is.addr.IP.String()]
				if !paired {
					if len(who) > 0 {
						env.Fail(prop+"/unpaired-forwarded", "event %d: 1:1 NAT forwarded a datagram from the unpaired local IP %s", ei, is.addr.IP)
						return
					}
					continue
				}
				if want == nil {
					if len(who) > 0 {
						env.Fail(prop+"/misdelivered", "event %d: datagram to unbound %s was received by %s", ei, dst, who[0].addr)
						return
					}
					continue
				}
				if len(who) != 1 || who[0] != want {
					env.Fail(prop+"/outbound-lost", "event %d (1:1 NAT): datagram from %s to %s was received by %d sockets, want exactly the destination", ei, is.addr, dst, len(who))
					return
				}
				if c02 {
					if wantSrc := fmt.Sprintf("%s:%d", ext, is.addr.Port); src != wantSrc {
						env.Fail("C02/one-to-one-rewrite-wrong", "event %d: 1:1 NAT rewrote source %s to %s, want %s (paired IP, port preserved)", ei, is.addr, src, wantSrc)
						return
					}
				}
				continue
			}
			// NAPT: reference model
			key := is.addr.String() + "|" + part(sc.Mapping, dst)
			var cur *mappingT
			for _, m := range maps {
				if m.internal+"|"+m.bound == key && !m.dead {
					cur = m
				}
			}
			st := expired
			if cur != nil {
				st = liveness(cur, u0, u1)
			}
			if want == nil {
				if len(who) > 0 {
					env.Fail(prop+"/misdelivered", "event %d: datagram to unbound %s was received by %s", ei, dst, who[0].addr)
					return
				}
				// the mapping was created or refreshed all the same, but its port was not observed
				switch {
				case cur != nil && st == alive:
					cur.perms[part(sc.Filtering, dst)] = true
					cur.r0, cur.r1 = u0, u1
				case cur != nil && st == unknown:
					// refreshed (then it keeps its address and permissions) or replaced by an unseen mapping
					cur.dead = true
					mb := map[string]bool{}
					for k := range cur.perms {
						mb[k] = true
					}
					for k := range cur.maybe {
						mb[k] = true
					}
					maps = append(maps, &mappingT{internal: is.addr.String(), bound: part(sc.Mapping, dst), ext: "?", perms: map[string]bool{part(sc.Filtering, dst): true}, maybe: mb, r0: u0, r1: u1})
				default:
					if cur != nil {
						cur.dead = true
					}
					maps = append(maps, &mappingT{internal: is.addr.String(), bound: part(sc.Mapping, dst), ext: "?", perms: map[string]bool{part(sc.Filtering, dst): true}, r0: u0, r1: u1})
				}
				env.Probe("outbound-to-unbound-port")
				continue
			}
			if len(who) != 1 || who[0] != want {
				env.Fail(prop+"/outbound-lost", "event %d: datagram from %s to the bound socket %s was received by %d sockets, want exactly the destination (NAT mapping=%d filtering=%d, %d mappings so far)", ei, is.addr, dst, len(who), sc.Mapping, sc.Filtering, len(maps))
				return
			}
			ua, err := net.ResolveUDPAddr("udp", src)
			if err != nil || !extIPs[ua.IP.String()] || ua.Port < 1 || ua.Port > 65535 {
				env.Fail(prop+"/invalid-external-address", "event %d: the receiver saw source %q; want an address of the NAT router (1.2.3.1) with a valid port", ei, src)
				return
			}
			// live mappings other than cur that hold this external address?
			holder := func() *mappingT {
				for _, m := range maps {
					if m != cur && !m.dead && m.ext == src && liveness(m, u0, u1) != expired {
						return m
					}
				}
				return nil
			}
			switch {
			case cur != nil && cur.ext == "?":
				// created by a datagram to an unbound port: learn its address now if still alive
				if st == alive || st == unknown {
					cur.ext = src
				}
				if st == expired {
					cur.dead = true
					cur = nil
				}
			case cur != nil && st == alive && cur.ext != src:
				if c02 {
					env.Fail("C02/mapping-not-kept", "event %d: %s -> %s was translated to %s; the live mapping of this endpoint (same %s) is %s (last refreshed %v ago, lifetime %v)", ei, is.addr, dst, src, depName(sc.Mapping), cur.ext, u1.Sub(cur.r0), L)
					return
				}
				cur.dead = true
				cur = nil
			case cur != nil && st == expired:
				cur.dead = true
				cur = nil
			case cur != nil && st == unknown && cur.ext != src:
				cur.dead = true
				cur = nil
			}
			if cur == nil || cur.ext != src {
				// a new mapping: its address must not be held by another live mapping
				if h := holder(); h != nil && liveness(h, u0, u1) == alive {
					if c02 {
						env.Fail("C02/external-address-shared", "event %d: new mapping for %s (towards %s) received %s, which the live mapping of %s (bound %q) holds", ei, is.addr, dst, src, h.internal, h.bound)
						return
					}
				}
				cur = &mappingT{internal: is.addr.String(), bound: part(sc.Mapping, dst), ext: src, perms: map[string]bool{}}
				maps = append(maps, cur)
				learned = append(learned, src)
				env.Probe("mapping-created")
			} else if st == alive {
				env.Probe("mapping-reused")
			}
			cur.perms[part(sc.Filtering, dst)] = true
			cur.r0, cur.r1 = u0, u1
		case "in":
			rs := remotes[e.Rem%len(remotes)]
			var dst *net.UDPAddr
			switch {
			case e.Target == "fresh":
				dst = &net.UDPAddr{IP: net.ParseIP("1.2.3.1"), Port: 40000 + ei}
			case e.Target == "unpaired":
				dst = &net.UDPAddr{IP: net.ParseIP("1.2.3.77"), Port: 5000}
			case strings.HasPrefix(e.Target, "alt:"):
				if len(learned) == 0 || sc.OneToOne > 0 {
					continue
				}
				var k int
				fmt.Sscanf(e.Target, "alt:%d", &k)
				dst, _ = net.ResolveUDPAddr("udp", learned[k%len(learned)])
				if dst.IP.String() == "1.2.3.1" {
					dst.IP = net.ParseIP("1.2.3.2")
				} else {
					dst.IP = net.ParseIP("1.2.3.1")
				}
			case strings.HasPrefix(e.Target, "low:"):
				if len(learned) == 0 || sc.OneToOne > 0 {
					continue
				}
				var k, j int
				fmt.Sscanf(e.Target, "low:%d:%d", &k, &j)
				dst, _ = net.ResolveUDPAddr("udp", learned[k%len(learned)])
				if dst.Port-j*0x4000 < 1 {
					continue
				}
				dst.Port -= j * 0x4000
				env.Probe("inbound-to-aliased-port")
			case sc.OneToOne > 0:
				var k int
				fmt.Sscanf(e.Target, "map:%d", &k)
				dst = &net.UDPAddr{IP: net.ParseIP(fmt.Sprintf("1.2.3.%d", 1+k%sc.OneToOne)), Port: 5000 + k%3} // 5002: nobody listens
			default:
				if len(learned) == 0 {
					continue
				}
				var k int
				fmt.Sscanf(e.Target, "map:%d", &k)
				dst, _ = net.ResolveUDPAddr("udp", learned[k%len(learned)])
			}
			if dst != nil {
				dst = &net.UDPAddr{IP: ipForm(dst.IP, e.Form), Port: dst.Port}
			}
			pl, tag := mkPayload()
			u0 := env.Now()
			if _, err := rs.conn.WriteTo(append([]byte(nil), pl...), dst); err != nil {
				env.Fail(prop+"/write-failed", "event %d: WriteTo: %v", ei, err)
				return
			}
			var u1 time.Time
			if natDelay > 0 {
				// the NAT decides on arrival; only the delivery behind it waits for the router's delay:
				// a short quiet period first, so that the instant of the decision is known closely
				env.QuiesceWithin(quiet)
				u1 = env.Now()
				settle()
			} else {
				settle()
				u1 = env.Now()
			}
			who, src, ok := collect(tag, pl)
			if !ok {
				return
			}
			if sc.OneToOne > 0 {
				loc, paired := pairLoc[dst.IP.String()]
				var want *sockT
				if paired {
					for _, s := range internals {
						if s.addr.IP.String() == loc && s.addr.Port == dst.Port {
							want = s
						}
					}
				}
				if want == nil {
					if len(who) > 0 && c03 {
						env.Fail("C03/one-to-one-misdelivered", "event %d: datagram to %s (paired: %v) was received by %s", ei, dst, paired, who[0].addr)
						return
					}
					continue
				}
				if c03 && (len(who) != 1 || who[0] != want || src != rs.addr.String()) {
					env.Fail("C03/one-to-one-not-forwarded", "event %d: datagram from %s to paired %s should reach %s with source unchanged; received by %d sockets, source %q", ei, rs.addr, dst, want.addr, len(who), src)
					return
				}
				continue
			}
			// NAPT: who owns dst?
			var owner *mappingT
			for _, m := range maps {
				if m.ext == dst.String() && !m.dead {
					owner = m
				}
			}
			unknownExt := false
			for _, m := range maps {
				if m.ext == "?" && !m.dead {
					unknownExt = true // a live mapping whose port was never observed could own anything
				}
			}
			st := expired
			if owner != nil {
				st = liveness(owner, u0, u1)
			}
			permitted := owner != nil && owner.perms[part(sc.Filtering, rs.addr)]
			var ownerSock *sockT
			if owner != nil {
				for _, s := range internals {
					if s.addr.String() == owner.internal {
						ownerSock = s
					}
				}
			}
			mustDeliver := owner != nil && st == alive && permitted
			maybePermitted := owner != nil && owner.maybe[part(sc.Filtering, rs.addr)]
			mustDrop := (owner == nil && !unknownExt) || (owner != nil && (st == expired || (!permitted && !maybePermitted)))
			switch {
			case len(who) > 1:
				env.Fail(prop+"/duplicated", "event %d: inbound datagram was received by %d sockets", ei, len(who))
				return
			case len(who) == 1 && mustDrop:
				why := "no mapping owns " + dst.String()
				cls := "C03/inbound-admitted-without-mapping"
				if owner != nil && st == expired {
					why = fmt.Sprintf("the mapping owning %s expired (last outbound traffic %v ago, lifetime %v)", dst, u0.Sub(owner.r1), L)
					cls = prop + "/inbound-admitted-by-expired-mapping"
				} else if owner != nil {
					why = fmt.Sprintf("the owner never sent to a remote matching %s under %s filtering (permissions %v)", rs.addr, depName(sc.Filtering), keys(owner.perms))
					cls = "C03/inbound-admitted-without-permission"
				}
				if c03 || (c02 && owner != nil && st == expired) {
					env.Fail(cls, "event %d: inbound datagram from %s to %s was received by %s although %s", ei, rs.addr, dst, who[0].addr, why)
					return
				}
			case len(who) == 0 && mustDeliver:
				if c03 {
					env.Fail("C03/inbound-refused", "event %d: inbound datagram from %s to %s was not received although the live mapping of %s owns the address and has sent to a matching remote (%s filtering, permissions %v, last refreshed %v ago, lifetime %v)", ei, rs.addr, dst, owner.internal, depName(sc.Filtering), keys(owner.perms), u1.Sub(owner.r0), L)
					return
				}
			case len(who) == 1 && owner != nil && c03:
				if who[0] != ownerSock {
					env.Fail("C03/inbound-to-wrong-owner", "event %d: inbound datagram to %s was received by %s, the mapping was created by %s", ei, dst, who[0].addr, owner.internal)
					return
				}
				if src != rs.addr.String() {
					env.Fail("C03/inbound-source-changed", "event %d: inbound datagram from %s arrived with source %s", ei, rs.addr, src)
					return
				}
				env.Probe("inbound-admitted")
			}
			if len(who) == 0 {
				env.Probe("inbound-dropped")
			}
		}
	}
	// teardown
	for _, s := range all {
		_ = s.conn.Close()
	}
	_ = wan.Stop()
	for _, s := range all {
		env.Join(s.h)
	}
}

func depName(k int) string {
	return []string{"endpoint-independent", "address-dependent", "address-and-port-dependent"}[k]
}

func keys(m map[string]bool) []string {
	var out []string
	for k := range m {
		out = append(out, fmt.Sprintf("%q", k))
	}
	sort.Strings(out)
	return out
}

func shrinkSc(sci interface{}) []interface{} {
	sc := sci.(*scenario)
	var out []interface{}
	if sc.Exhaust {
		return nil
	}
	n := len(sc.Events)
	for chunk := n / 2; chunk >= 1; chunk /= 2 {
		for i := 0; i+chunk <= n; i += chunk {
			c := *sc
			c.Events = append(append([]event(nil), sc.Events[:i]...), sc.Events[i+chunk:]...)
			out = append(out, &c)
		}
	}
	if sc.Internal > 1 && sc.OneToOne == 0 {
		c := *sc
		c.Internal--
		out = append(out, &c)
	}
	if sc.Remotes > 1 {
		c := *sc
		c.Remotes--
		out = append(out, &c)
	}
	return out
}

func nonTrivial(sci interface{}, res *simrt.Result) (bool, uint64) {
	sc := sci.(*scenario)
	h := uint64(1469598103934665603)
	mix := func(s string) {
		for i := 0; i < len(s); i++ {
			h = (h ^ uint64(s[i])) * 1099511628211
		}
	}
	mix(fmt.Sprint(sc.OneToOne, sc.Mapping, sc.Filtering, sc.LifeNs, sc.Internal, sc.Remotes))
	for _, e := range sc.Events {
		mix(fmt.Sprint(e))
	}
	return res.Probes["mapping-created"]+res.Probes["inbound-dropped"]+res.Probes["inbound-admitted"] >= 2 || sc.OneToOne > 0, h
}

func TestSim(t *testing.T) {
	harn.Main(t, &harn.Spec{
		ID: prop, Gen: gen, New: func() interface{} { return &scenario{} }, Run: run, Shrink: shrinkSc, NonTrivial: nonTrivial,
		Knobs: func(r *harn.Rng, sci interface{}, cfg *simrt.Config) {
			// mapping liveness is judged against the lifetime with ~microsecond intervals: long
			// stalls would only widen the "unconstrained" band, so they are kept short here
			cfg.StallP = 0
			if cfg.Jitter == "mixed" {
				cfg.Jitter = "small"
			}
			if sci.(*scenario).Exhaust {
				cfg.MaxSteps = 6000000
				cfg.Strategy = "sticky"
				cfg.SwitchP = 0.02
			}
		},
	})
}
