// C17 — context cancellation of I/O loses no data and leaves the connection usable.
package c17

import (
	"strings"
	"bytes"
	"context"
	"errors"
	"fmt"
	"net"
	"os"
	"testing"
	"time"

	"github.com/pion/transport/v3/connctx"
	"github.com/pion/transport/v3/netctx"
	"github.com/pion/transport/v3/zzverif/harn"
	"github.com/pion/transport/v3/zzverif/simnet"
	"github.com/pion/transport/v3/zzverif/simrt"
)

type opSpec struct {
	SleepNs int64  `json:"sleepNs"`
	Len     int    `json:"len"`
	Ctx     string `json:"ctx"` // bg | pre | cancel | timeout | tcancel (WithTimeout far ahead, cancelled explicitly) | child (WithCancel child of a far deadline, cancelled explicitly)
	CtxNs   int64  `json:"ctxNs"`
	UserDL  int64  `json:"userDLNs,omitempty"` // reads: the caller has set this read deadline (from now) on the wrapped connection itself; the context stays live
	After   string `json:"after,omitempty"` // "cancel": the caller cancels the context once the call has returned (defer cancel())
}

type endSpec struct {
	Reads  []opSpec `json:"reads"`
	Writes []opSpec `json:"writes"`
	Reads2  []opSpec `json:"reads2"`  // a second, concurrent reader on the same end (the wrapper serialises them)
	Writes2 []opSpec `json:"writes2"` // a second, concurrent writer
}

type scenario struct {
	Flavor   string     `json:"flavor"` // netctx-stream | connctx-stream | netctx-packet | netctx-msg | connctx-msg (Conn wrappers over a message-preserving pipe)
	Capacity int        `json:"capacity"`
	MaxChunk int        `json:"maxChunk"`
	Ends     [2]endSpec `json:"ends"`
	ShortErr bool       `json:"shortErr,omitempty"` // packet stubs report io.ErrShortBuffer together with the leading bytes of a datagram longer than the slice
	SetErr   bool       `json:"setErr"` // inject one failing SetDeadline call
	SetErrAt int64      `json:"setErrAtNs"`
	SetErrOn int        `json:"setErrOn"`
}

var gaps = []int64{0, 0, 1, 1000, 50000, 1000000}

func gen(r *harn.Rng, tier string) interface{} {
	sc := &scenario{Flavor: []string{"netctx-stream", "connctx-stream", "netctx-packet", "netctx-stream", "connctx-stream", "netctx-packet", "netctx-msg", "connctx-msg"}[r.Intn(8)]}
	if sc.Flavor == "netctx-packet" || strings.HasSuffix(sc.Flavor, "-msg") {
		sc.Capacity = r.Pick(1, 2, 8)
	} else {
		sc.Capacity = r.Pick(4, 16, 100, 4096)
		sc.MaxChunk = r.Pick(0, 0, 3, 50)
	}
	mkOp := func(write bool) opSpec {
		o := opSpec{SleepNs: gaps[r.Intn(len(gaps))]}
		if write {
			o.Len = r.Pick(1, 3, 10, 40, 300)
		} else {
			o.Len = r.Pick(1, 4, 16, 64, 512)
		}
		if r.Bool(0.08) {
			o.Len = 0
		}
		if write && r.Bool(0.05) {
			o.Len = r.Pick(16384, 16385, 20000, 40000) // one message, however large
		}
		if !write && r.Bool(0.06) {
			o.Len = r.Pick(20000, 50000)
		}
		if r.Bool(0.6) {
			o.After = "cancel"
		}

		switch r.Intn(10) {
		case 0:
			o.Ctx = "pre"
			if r.Bool(0.3) {
				o.Ctx = "precause" // cancelled with a cause: the error is still the context's error (ctx.Err())
			} else if r.Bool(0.3) {
				o.Ctx = "prepast" // cancelled before its deadline and used after it: ctx.Err() stays Canceled
			} else if r.Bool(0.3) {
				o.Ctx = "prezero" // a deadline at the zero time: expired from the start, ctx.Err() is DeadlineExceeded
			}
		case 1, 2, 3:
			o.Ctx, o.CtxNs = "cancel", gaps[r.Intn(len(gaps))]
		case 4, 5:
			o.Ctx, o.CtxNs = "timeout", gaps[2+r.Intn(len(gaps)-2)]
			if r.Bool(0.4) {
				o.Ctx, o.CtxNs = []string{"tcancel", "child"}[r.Intn(2)], gaps[r.Intn(len(gaps))]
			}
		default:
			o.Ctx = "bg"
		}
		if !write && o.Ctx == "bg" && r.Bool(0.15) {
			o.UserDL = gaps[2+r.Intn(len(gaps)-2)]
		}
		return o
	}
	for e := 0; e < 2; e++ {
		for i, n := 0, r.Range(0, 4); i < n; i++ {
			sc.Ends[e].Reads = append(sc.Ends[e].Reads, mkOp(false))
		}
		for i, n := 0, r.Range(0, 4); i < n; i++ {
			sc.Ends[e].Writes = append(sc.Ends[e].Writes, mkOp(true))
		}
		if r.Bool(0.25) {
			for i, n := 0, r.Range(1, 3); i < n; i++ {
				sc.Ends[e].Reads2 = append(sc.Ends[e].Reads2, mkOp(false))
			}
		}
		if r.Bool(0.15) {
			for i, n := 0, r.Range(1, 2); i < n; i++ {
				sc.Ends[e].Writes2 = append(sc.Ends[e].Writes2, mkOp(true))
			}
		}
	}
	sc.ShortErr = r.Bool(0.3)
	if r.Bool(0.12) {
		sc.SetErr = true
		sc.SetErrAt = gaps[r.Intn(len(gaps))]
		sc.SetErrOn = r.Intn(2)
	}
	return sc
}

// end abstracts the three wrapper flavours.
type end struct {
	read      func(ctx context.Context, b []byte) (int, error)
	write     func(ctx context.Context, b []byte) (int, error)
	deadlines func() (time.Time, time.Time)
	setUserReadDL func(time.Time)
	injectErr func()
	closeStub func()
	closeWrap func() error // Close of the wrapper itself
	remote    func() net.Addr    // RemoteAddr as the wrapper reports it
	moveStub  func(name string)  // the wrapped connection's remote address changes
	stubRemote func() net.Addr
}

type opResult struct {
	spec     opSpec
	write    bool
	data     []byte // bytes reported transferred (b[:n])
	n        int
	err      error
	returned bool
	ctx      context.Context
	preDone  bool
	userDL   bool      // the caller's own read deadline was in force on the wrapped connection
	tCancel  time.Time // explicit cancellation of a deadline-carrying context
	tRet     time.Time
}

// farAhead is the deadline of the "tcancel"/"child" contexts; an operation cancelled long
// before it has to return long before it (stall faults: <= 40 s per scheduling step).
const farAhead = 100 * time.Hour

func run(env *simrt.Env, sci interface{}) {
	sc := sci.(*scenario)
	var ends [2]end
	var streams [2]*simnet.Stream
	var packets [2]*simnet.Packet
	switch sc.Flavor {
	case "netctx-msg", "connctx-msg":
		a, b := simnet.PacketPipe(sc.Capacity)
		packets = [2]*simnet.Packet{a, b}
		for i, p := range packets {
			p := p
			if sc.Flavor == "connctx-msg" {
				w := connctx.New(p)
				ends[i] = end{read: w.ReadContext, write: w.WriteContext, closeWrap: w.Close, remote: w.RemoteAddr, moveStub: p.MoveRemote, stubRemote: p.RemoteAddr}
			} else {
				w := netctx.NewConn(p)
				ends[i] = end{read: w.ReadContext, write: w.WriteContext, closeWrap: w.Close, remote: w.RemoteAddr, moveStub: p.MoveRemote, stubRemote: p.RemoteAddr}
			}
			ends[i].deadlines = p.Deadlines
			ends[i].setUserReadDL = func(t time.Time) { _ = p.SetReadDeadline(t) }
			ends[i].injectErr = func() { p.InjectSetDeadlineError(simnet.ErrInjected) }
			ends[i].closeStub = func() { _ = p.Close() }
		}
	case "netctx-packet":
		a, b := simnet.PacketPipe(sc.Capacity)
		packets = [2]*simnet.Packet{a, b}
		for i, p := range packets {
			p := p
			w := netctx.NewPacketConn(p)
			ends[i] = end{
				read: func(ctx context.Context, b []byte) (int, error) { n, _, err := w.ReadFromContext(ctx, b); return n, err },
				write: func(ctx context.Context, b []byte) (int, error) { return w.WriteToContext(ctx, b, p.LocalAddr()) },
				deadlines: p.Deadlines, setUserReadDL: func(t time.Time) { _ = p.SetReadDeadline(t) }, injectErr: func() { p.InjectSetDeadlineError(simnet.ErrInjected) }, closeStub: func() { _ = p.Close() },
			}
		}
	default:
		a, b := simnet.StreamPipe(sc.Capacity, sc.MaxChunk)
		streams = [2]*simnet.Stream{a, b}
		for i, s := range streams {
			s := s
			if sc.Flavor == "connctx-stream" {
				w := connctx.New(s)
				ends[i] = end{read: w.ReadContext, write: w.WriteContext, closeWrap: w.Close, remote: w.RemoteAddr, moveStub: s.MoveRemote, stubRemote: s.RemoteAddr}
			} else {
				w := netctx.NewConn(s)
				ends[i] = end{read: w.ReadContext, write: w.WriteContext, closeWrap: w.Close, remote: w.RemoteAddr, moveStub: s.MoveRemote, stubRemote: s.RemoteAddr}
			}
			ends[i].deadlines = s.Deadlines
			ends[i].setUserReadDL = func(t time.Time) { _ = s.SetReadDeadline(t) }
			ends[i].injectErr = func() { s.InjectSetDeadlineError(simnet.ErrInjected) }
			ends[i].closeStub = func() { _ = s.Close() }
		}
	}
	faulty := [2]bool{}
	var results [2][2][]*opResult // [end][0=read,1=write]
	var hs []*simrt.Handle
	nextByte := byte(1)
	doOp := func(e int, write bool, spec opSpec, payload []byte) *opResult {
		res := &opResult{spec: spec, write: write}
		var ctx context.Context
		var cancel context.CancelFunc
		switch spec.Ctx {
		case "prepast":
			ctx, cancel = context.WithTimeout(context.Background(), time.Millisecond)
			cancel()
			env.Sleep(2 * time.Millisecond)
			res.preDone = true
		case "prezero":
			ctx, cancel = context.WithDeadline(context.Background(), time.Time{})
			res.preDone = true
		case "precause":
			var cc context.CancelCauseFunc
			ctx, cc = context.WithCancelCause(context.Background())
			cc(errors.New("harness: custom cause"))
			cancel = func() { cc(nil) }
			res.preDone = true
		case "pre":
			ctx, cancel = context.WithCancel(context.Background())
			cancel()
			res.preDone = true
		case "cancel":
			ctx, cancel = context.WithCancel(context.Background())
			c := cancel
			d := time.Duration(spec.CtxNs)
			env.Go("canceller", func() {
				env.Sleep(d)
				c()
				env.Fault("context-cancel")
			})
		case "tcancel", "child":
			// a context that carries a deadline far ahead and is cancelled explicitly long before it
			ctx, cancel = context.WithTimeout(context.Background(), farAhead)
			if spec.Ctx == "child" {
				parent := ctx
				pc := cancel
				var cc context.CancelFunc
				ctx, cc = context.WithCancel(parent)
				cancel = func() { cc(); pc() }
			}
			c := cancel
			d := time.Duration(spec.CtxNs)
			env.Go("canceller", func() {
				env.Sleep(d)
				c()
				res.tCancel = env.Now()
				env.Fault("context-cancel")
			})
		case "timeout":
			ctx, cancel = context.WithTimeout(context.Background(), time.Duration(spec.CtxNs))
		default:
			ctx, cancel = context.WithCancel(context.Background())
			if spec.After != "cancel" {
				ctx = context.Background() // the real thing: Done() is nil
			}
		}
		if spec.After == "cancel" {
			defer cancel()
		}
		res.ctx = ctx
		k := 0
		if write {
			k = 1
		}
		results[e][k] = append(results[e][k], res)
		if write {
			env.Enter("WriteContext")
			res.n, res.err = ends[e].write(ctx, payload)
			res.data = append([]byte(nil), payload[:max0(res.n)]...)
		} else {
			buf := make([]byte, spec.Len)
			if spec.UserDL > 0 && ends[e].setUserReadDL != nil && !faulty[e] && !sc.SetErr && len(sc.Ends[e].Reads2) == 0 {
				ends[e].setUserReadDL(env.Now().Add(time.Duration(spec.UserDL)))
				res.userDL = true
			}
			env.Enter("ReadContext")
			res.n, res.err = ends[e].read(ctx, buf)
			if res.userDL {
				ends[e].setUserReadDL(time.Time{})
			}
			res.data = append([]byte(nil), buf[:max0(res.n)]...)
		}
		env.Leave()
		res.returned = true
		res.tRet = env.Now()
		// checks made by the issuing worker right after the return
		if res.n < 0 || (write && res.n > len(payload)) || (!write && res.n > spec.Len) {
			env.Fail("C17/bad-count", "end %d %s returned n=%d", e, opName(write), res.n)
			return res
		}
		if faulty[e] {
			return res
		}
		if res.n == 0 && res.preDone && !errors.Is(res.err, ctx.Err()) {
			env.Fail("C17/context-error-not-reported", "end %d %s with a context that was done beforehand returned (0, %v), want the context's error (%v)", e, opName(write), res.err, ctx.Err())
			return res
		}
		if res.n == 0 && errors.Is(res.err, os.ErrDeadlineExceeded) && !res.userDL {
			env.Fail("C17/internal-timeout-leaked", "end %d %s returned (0, %v): the deadline forced by the wrapper surfaced instead of the context's error (ctx.Err()=%v)", e, opName(write), res.err, ctx.Err())
			return res
		}
		rd, wd := ends[e].deadlines()
		dl := rd
		if write {
			dl = wd
		}
		shared := (write && len(sc.Ends[e].Writes2) > 0) || (!write && len(sc.Ends[e].Reads2) > 0)
		if !dl.IsZero() && !shared { // with two workers on one direction the next operation may already have forced its own deadline
			env.Fail("C17/leftover-deadline", "after end %d %s returned (%d, %v) the wrapped connection still carries a %s deadline (%v)", e, opName(write), res.n, res.err, opName(write), dl)
			return res
		}
		return res
	}
	for e := 0; e < 2; e++ {
		e := e
		if len(sc.Ends[e].Reads) > 0 {
			hs = append(hs, env.Go(fmt.Sprintf("reader%d", e), func() {
				for _, o := range sc.Ends[e].Reads {
					env.Sleep(time.Duration(o.SleepNs))
					if env.Failed() {
						return
					}
					doOp(e, false, o, nil)
				}
			}))
		}
		if len(sc.Ends[e].Reads2) > 0 {
			hs = append(hs, env.Go(fmt.Sprintf("reader%db", e), func() {
				for _, o := range sc.Ends[e].Reads2 {
					env.Sleep(time.Duration(o.SleepNs))
					if env.Failed() {
						return
					}
					doOp(e, false, o, nil)
				}
			}))
		}
		if len(sc.Ends[e].Writes2) > 0 {
			var payloads2 [][]byte
			for _, o := range sc.Ends[e].Writes2 {
				p := make([]byte, o.Len)
				for i := range p {
					p[i] = nextByte
					nextByte++
					if nextByte == 0 {
						nextByte = 1
					}
				}
				payloads2 = append(payloads2, p)
			}
			hs = append(hs, env.Go(fmt.Sprintf("writer%db", e), func() {
				for i, o := range sc.Ends[e].Writes2 {
					env.Sleep(time.Duration(o.SleepNs))
					if env.Failed() {
						return
					}
					doOp(e, true, o, append([]byte(nil), payloads2[i]...))
				}
			}))
		}
		if len(sc.Ends[e].Writes) > 0 {
			// unique byte values make every received byte attributable
			var payloads [][]byte
			for _, o := range sc.Ends[e].Writes {
				p := make([]byte, o.Len)
				for i := range p {
					p[i] = nextByte
					nextByte++
					if nextByte == 0 {
						nextByte = 1
					}
				}
				payloads = append(payloads, p)
			}
			hs = append(hs, env.Go(fmt.Sprintf("writer%d", e), func() {
				for i, o := range sc.Ends[e].Writes {
					env.Sleep(time.Duration(o.SleepNs))
					if env.Failed() {
						return
					}
					cp := append([]byte(nil), payloads[i]...)
					doOp(e, true, o, cp)
				}
			}))
		}
	}
	if sc.ShortErr {
		for _, p := range packets {
			if p != nil {
				p.ShortBufferError = true
			}
		}
	}
	if sc.SetErr {
		env.Go("faulter", func() {
			env.Sleep(time.Duration(sc.SetErrAt))
			faulty[sc.SetErrOn] = true
			ends[sc.SetErrOn].injectErr()
		})
	}
	env.Quiesce()
	if env.Failed() {
		return
	}
	// liveness: every operation whose context is done has returned
	for e := 0; e < 2; e++ {
		for k := 0; k < 2; k++ {
			// operations of one direction are serialised by the wrapper: an operation queued behind
			// another one that legitimately blocks with a live context cannot return yet
			liveBlocker := false
			for _, r := range results[e][k] {
				if !r.returned && r.ctx.Err() == nil {
					liveBlocker = true
				}
			}
			for i, r := range results[e][k] {
				if !r.returned && r.ctx.Err() != nil && !faulty[e] && !liveBlocker {
					env.Fail("C17/cancelled-operation-stuck", "end %d %s #%d is still blocked at quiescence although its context is done (%v)", e, opName(k == 1), i, r.ctx.Err())
					return
				}
			}
		}
	}
	// "otherwise behaves like the wrapped connection": a read deadline the caller has set on the
	// wrapped connection itself ends a read whose context stays live
	for e := 0; e < 2; e++ {
		for i, r := range results[e][0] {
			if r.userDL && !r.returned && r.ctx.Err() == nil && !faulty[e] {
				env.Fail("C17/user-deadline-ignored", "end %d read #%d is still blocked at quiescence: its context is live, but the caller had set a read deadline (%v ahead) on the wrapped connection, which has long passed", e, i, time.Duration(r.spec.UserDL))
				return
			}
		}
	}
	// promptness: an operation whose deadline-carrying context was cancelled explicitly returns
	// because of the cancellation, not because the (far) deadline finally passed
	for e := 0; e < 2; e++ {
		for k := 0; k < 2; k++ {
			for i, r := range results[e][k] {
				if faulty[e] || !r.returned || r.tCancel.IsZero() || !r.tRet.After(r.tCancel) {
					continue
				}
				if late := r.tRet.Sub(r.tCancel); late > farAhead/2 {
					env.Fail("C17/cancellation-not-prompt", "end %d %s #%d returned (%d, %v) %v after its context was cancelled (the context's own deadline lay %v ahead): it was released by the deadline, not by the cancellation", e, opName(k == 1), i, r.n, r.err, late, farAhead)
					return
				}
			}
		}
	}
	// nothing in flight on a direction: the wrapped connection carries no deadline there, whatever
	// happened to the contexts of finished calls afterwards
	for e := 0; e < 2; e++ {
		if faulty[e] {
			continue
		}
		rd, wd := ends[e].deadlines()
		for k, dl := range []time.Time{rd, wd} {
			idle := true
			for _, r := range results[e][k] {
				if !r.returned {
					idle = false
				}
			}
			if idle && !dl.IsZero() {
				env.Fail("C17/leftover-deadline", "at quiescence no %s is in flight on end %d, yet the wrapped connection carries a %s deadline (%v)", opName(k == 1), e, opName(k == 1), dl)
				return
			}
		}
	}
	// data conservation: what the wrapper reported equals what the wrapped connection moved
	// (also after an injected SetDeadline failure: a wrapper that cannot interrupt an operation
	// may report an error, never a byte count that differs from what was transferred)
	for e := 0; e < 2; e++ {
		if len(sc.Ends[e].Reads2) > 0 || len(sc.Ends[e].Writes2) > 0 {
			// two workers on one direction: the harness cannot order their reports; totals must still agree
			if packets[e] == nil {
				_, _, received, moved := streams[e].Snapshot()
				nR, nW, allW := 0, 0, true
				for _, r := range results[e][0] {
					if r.returned {
						nR += r.n
					}
				}
				for _, r := range results[e][1] {
					if r.returned {
						nW += r.n
					} else {
						allW = false
					}
				}
				if nR != len(received) {
					env.Fail("C17/read-data-lost", "end %d (two readers): the wrapped connection returned %d bytes to the wrapper, the wrapper reported %d bytes to its callers", e, len(received), nR)
					return
				}
				if nW > len(moved) || (allW && nW != len(moved)) {
					env.Fail("C17/write-misreported", "end %d (two writers): %d bytes reported written, %d bytes moved into the pipe", e, nW, len(moved))
					return
				}
			}
			continue
		}
		if packets[e] != nil {
			allRecv, _, _, _ := packets[e].Snapshot()
			_ = allRecv
			_, _, received, moved := packets[e].Snapshot()
			// every message the wrapped connection handed over is reported by a call that returned
			// without error - except that a call which ended with its context's error may have
			// taken one along (an empty message and "zero bytes" cannot be told apart there)
			okReads, ctxReads := 0, 0
			for _, r := range results[e][0] {
				switch {
				case r.returned && (r.err == nil || r.n > 0):
					okReads++
				case !r.returned || r.ctx.Err() != nil || faulty[e]:
					ctxReads++
				}
			}
			if okReads > len(received) && !faulty[e] {
				env.Fail("C17/read-invented", "end %d: %d calls returned a message (or an empty one) without error, but the wrapped connection handed over only %d: a read that takes nothing from the connection cannot report success", e, okReads, len(received))
				return
			}
			if len(received) > okReads+ctxReads {
				env.Fail("C17/read-data-lost", "end %d: the wrapped connection handed %d messages (empty ones included) to the wrapper, but only %d calls returned a message and %d ended with their context's error or are still pending", e, len(received), okReads, ctxReads)
				return
			}
			// empty datagrams (and datagrams truncated into an empty buffer) carry no bytes: a call
			// that reports (0, context error) for one of them has "transferred none" in the
			// property's sense, so they are left out on both sides of the comparison
			received, moved = nonEmpty(received), nonEmpty(moved)
			var repR, repW [][]byte
			for _, r := range results[e][0] {
				if r.returned && len(r.data) > 0 { // n > 0 counts whatever the error says
					repR = append(repR, r.data)
				}
			}
			for _, r := range results[e][1] {
				if r.returned && r.n > 0 {
					repW = append(repW, r.data)
				}
			}
			if !eqSeq(repR, received) {
				env.Fail("C17/read-data-lost", "end %d: the wrapped connection returned %d datagrams to the wrapper, the wrapper reported %d to its callers", e, len(received), len(repR))
				return
			}
			if !eqSeqPrefix(moved, repW) {
				env.Fail("C17/write-misreported", "end %d: %d datagrams were moved into the pipe, %d were reported written", e, len(moved), len(repW))
				return
			}
			continue
		}
		_, _, received, moved := streams[e].Snapshot()
		var repR, repW []byte
		for _, r := range results[e][0] {
			if r.returned {
				repR = append(repR, r.data...)
			}
		}
		for _, r := range results[e][1] {
			if r.returned {
				repW = append(repW, r.data...)
			}
		}
		if !bytes.Equal(repR, received) {
			env.Fail("C17/read-data-lost", "end %d: the wrapped connection returned %d bytes to the wrapper, the wrapper reported %d bytes to its callers (a read that reports zero bytes must have transferred none)", e, len(received), len(repR))
			return
		}
		// a write still blocked has moved bytes it has not reported yet: reported must be a prefix
		if len(repW) > len(moved) || !bytes.Equal(repW, moved[:len(repW)]) {
			env.Fail("C17/write-misreported", "end %d: bytes reported written (%d) are not a prefix of the bytes moved into the pipe (%d)", e, len(repW), len(moved))
			return
		}
		allReturned := true
		for _, r := range results[e][1] {
			if !r.returned {
				allReturned = false
			}
		}
		if allReturned && len(repW) != len(moved) {
			env.Fail("C17/write-misreported", "end %d: all writes returned and reported %d bytes, but %d bytes were moved into the pipe (a write that reports zero bytes must have transferred none)", e, len(repW), len(moved))
			return
		}
	}
	// the address getters are the wrapped connection's, also after its peer has moved
	for e := 0; e < 2; e++ {
		if ends[e].remote == nil {
			continue
		}
		for round := 0; round < 2; round++ {
			got, want := ends[e].remote(), ends[e].stubRemote()
			if got == nil || want == nil || got.String() != want.String() {
				env.Fail("C17/address-not-passed-through", "end %d: RemoteAddr() of the wrapper is %v, the wrapped connection reports %v", e, got, want)
				return
			}
			ends[e].moveStub(fmt.Sprintf("moved-%d", e))
		}
		env.Probe("remote-address-after-move")
	}
	// release whatever is still waiting with a live context, then everything must return
	ends[0].closeStub()
	ends[1].closeStub()
	env.Quiesce()
	for e := 0; e < 2; e++ {
		for k := 0; k < 2; k++ {
			for i, r := range results[e][k] {
				if !r.returned {
					env.Fail("C17/operation-stuck-after-close", "end %d %s #%d did not return after the wrapped connection was closed", e, opName(k == 1), i)
					return
				}
			}
		}
	}
	// the wrappers themselves are closed: every later operation returns (with whatever error), the
	// second and third just like the first
	for e := 0; e < 2; e++ {
		if ends[e].closeWrap == nil {
			continue
		}
		e := e
		_ = ends[e].closeWrap()
		done := 0
		h := env.Go(fmt.Sprintf("after-close%d", e), func() {
			for k := 0; k < 3; k++ {
				ctx, cancel := context.WithTimeout(context.Background(), time.Second)
				_, _ = ends[e].read(ctx, make([]byte, 8))
				_, _ = ends[e].write(ctx, []byte{1, 2, 3})
				cancel()
				done++
			}
		})
		env.QuiesceWithin(time.Minute)
		if !h.Finished() {
			env.Fail("C17/operation-stuck-after-close", "end %d: after the wrapper's Close, round %d of read+write did not return within a simulated minute although its context expired after a second", e, done+1)
			return
		}
		env.Probe("operations-after-wrapper-close")
	}
}

func nonEmpty(a [][]byte) [][]byte {
	var out [][]byte
	for _, x := range a {
		if len(x) > 0 {
			out = append(out, x)
		}
	}
	return out
}

func max0(n int) int {
	if n < 0 {
		return 0
	}
	return n
}

func opName(write bool) string {
	if write {
		return "write"
	}
	return "read"
}

func eqSeq(a, b [][]byte) bool {
	if len(a) != len(b) {
		return false
	}
	for i := range a {
		if !bytes.Equal(a[i], b[i]) {
			return false
		}
	}
	return true
}

func eqSeqPrefix(moved, reported [][]byte) bool {
	// every datagram reported written was moved, in order (datagrams to a full queue may
	// still be waiting; a closed peer swallows datagrams)
	j := 0
	for _, r := range reported {
		for j < len(moved) && !bytes.Equal(moved[j], r) {
			j++
		}
		if j == len(moved) {
			return false
		}
		j++
	}
	return len(moved) <= len(reported)
}

var _ net.Conn = (*simnet.Stream)(nil)

func shrinkSc(sci interface{}) []interface{} {
	sc := sci.(*scenario)
	var out []interface{}
	for e := 0; e < 2; e++ {
		for i := range sc.Ends[e].Reads {
			c := *sc
			c.Ends[e].Reads = append(append([]opSpec(nil), sc.Ends[e].Reads[:i]...), sc.Ends[e].Reads[i+1:]...)
			out = append(out, &c)
		}
		for i := range sc.Ends[e].Writes {
			c := *sc
			c.Ends[e].Writes = append(append([]opSpec(nil), sc.Ends[e].Writes[:i]...), sc.Ends[e].Writes[i+1:]...)
			out = append(out, &c)
		}
		for i, o := range sc.Ends[e].Reads {
			if o.Ctx != "bg" {
				c := *sc
				c.Ends[e].Reads = append([]opSpec(nil), sc.Ends[e].Reads...)
				c.Ends[e].Reads[i].Ctx = "bg"
				out = append(out, &c)
			}
			if o.SleepNs != 0 {
				c := *sc
				c.Ends[e].Reads = append([]opSpec(nil), sc.Ends[e].Reads...)
				c.Ends[e].Reads[i].SleepNs = 0
				out = append(out, &c)
			}
		}
		for i, o := range sc.Ends[e].Writes {
			if o.Ctx != "bg" {
				c := *sc
				c.Ends[e].Writes = append([]opSpec(nil), sc.Ends[e].Writes...)
				c.Ends[e].Writes[i].Ctx = "bg"
				out = append(out, &c)
			}
			if o.SleepNs != 0 {
				c := *sc
				c.Ends[e].Writes = append([]opSpec(nil), sc.Ends[e].Writes...)
				c.Ends[e].Writes[i].SleepNs = 0
				out = append(out, &c)
			}
		}
	}
	if sc.SetErr {
		c := *sc
		c.SetErr = false
		out = append(out, &c)
	}
	for e := 0; e < 2; e++ {
		if len(sc.Ends[e].Reads2) > 0 {
			c := *sc
			c.Ends[e].Reads2 = nil
			out = append(out, &c)
		}
		if len(sc.Ends[e].Writes2) > 0 {
			c := *sc
			c.Ends[e].Writes2 = nil
			out = append(out, &c)
		}
	}
	return out
}

func TestSim(t *testing.T) {
	harn.Main(t, &harn.Spec{
		ID: "C17", Gen: gen, New: func() interface{} { return &scenario{} }, Run: run, Shrink: shrinkSc,
	})
}
