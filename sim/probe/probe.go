// Package probe holds small programs that use synchronisation constructs pion/transport
// does not use today (sync.Cond, embedded mutexes, RWMutex.TryLock, context.AfterFunc,
// sync.Pool, method values) so that the instrumenter's rules for them are exercised by a
// self-test (bin/check Z00). It is copied into the scratch copy and instrumented there.
package probe

import (
	"context"
	"sync"
	"sync/atomic"
	"time"
)

// Queue is a bounded queue built on sync.Cond.
type Queue struct {
	mu       sync.Mutex
	notEmpty *sync.Cond
	notFull  *sync.Cond
	items    []int
	cap      int
	// Buggy: "if" instead of "for" around Wait (a woken consumer may find the queue empty)
	Buggy bool
}

func NewQueue(capacity int) *Queue {
	q := &Queue{cap: capacity}
	q.notEmpty = sync.NewCond(&q.mu)
	q.notFull = sync.NewCond(&q.mu)
	return q
}

func (q *Queue) Put(v int) {
	q.mu.Lock()
	defer q.mu.Unlock()
	for len(q.items) >= q.cap {
		q.notFull.Wait()
	}
	q.items = append(q.items, v)
	q.notEmpty.Signal()
}

func (q *Queue) Get() (int, bool) {
	q.mu.Lock()
	defer q.mu.Unlock()
	if q.Buggy {
		if len(q.items) == 0 {
			q.notEmpty.Wait()
		}
		if len(q.items) == 0 {
			return 0, false
		}
	} else {
		for len(q.items) == 0 {
			q.notEmpty.Wait()
		}
	}
	v := q.items[0]
	q.items = q.items[1:]
	q.notFull.Broadcast()
	return v, true
}

// Counter embeds its mutex.
type Counter struct {
	sync.Mutex
	N int
}

func (c *Counter) Inc() {
	c.Lock()
	defer c.Unlock()
	c.N++
}

// Gate uses RWMutex.TryLock / TryRLock.
type Gate struct {
	mu      sync.RWMutex
	Writes  int
	Skipped int
}

func (g *Gate) TryWrite() bool {
	if !g.mu.TryLock() {
		return false
	}
	g.Writes++
	g.mu.Unlock()
	return true
}

func (g *Gate) TryRead() (int, bool) {
	if !g.mu.TryRLock() {
		return 0, false
	}
	defer g.mu.RUnlock()
	return g.Writes, true
}

// Watch registers a context callback and reports whether it ran.
func Watch(ctx context.Context, ran *int32mu) (stop func() bool) {
	return context.AfterFunc(ctx, func() {
		ran.mu.Lock()
		ran.v++
		ran.mu.Unlock()
	})
}

type int32mu struct {
	mu sync.Mutex
	v  int
}

func NewFlag() *int32mu { return &int32mu{} }
func (f *int32mu) Get() int {
	f.mu.Lock()
	defer f.mu.Unlock()
	return f.v
}

var pool = sync.Pool{New: func() interface{} { return new([64]byte) }}

// PoolRound uses a sync.Pool and a method value of a mutex.
func PoolRound(c *Counter) {
	b := pool.Get().(*[64]byte)
	b[0]++
	pool.Put(b)
	unlock := c.Unlock
	c.Lock()
	c.N++
	unlock()
}

// SleepyTicker counts ticks until the context is done.
func SleepyTicker(ctx context.Context, period time.Duration) int {
	t := time.NewTicker(period)
	defer t.Stop()
	n := 0
	for {
		select {
		case <-t.C:
			n++
		case <-ctx.Done():
			return n
		}
	}
}

// Drops is a counter of armed drops consumed with atomics.
type Drops struct {
	n     atomic.Int32
	Buggy bool // check-then-act with two separate atomic operations
}

func (d *Drops) Arm(k int32) { d.n.Store(k) }

func (d *Drops) Take() bool {
	if d.Buggy {
		if d.n.Load() > 0 {
			d.n.Add(-1)

			return true
		}

		return false
	}
	for {
		v := d.n.Load()
		if v <= 0 {
			return false
		}
		if d.n.CompareAndSwap(v, v-1) {
			return true
		}
	}
}
