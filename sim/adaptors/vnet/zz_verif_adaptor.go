// In-package adaptor copied into the scratch copy of vnet by /verif/bin/check. It
// contains no logic of the code under test: a sink NIC that reports every chunk handed
// to it at the instant of the hand-over, and an injector that hands a UDP chunk to a NIC.

package vnet

import (
	"net"

	"github.com/pion/transport/v3"
)

// VerifSink is a NIC that passes every inbound chunk to OnChunk.
type VerifSink struct {
	OnChunk func(src, dst net.Addr, payload []byte)
}

func (s *VerifSink) getInterface(string) (*transport.Interface, error) {
	return nil, errNoInterface
}

func (s *VerifSink) onInboundChunk(c Chunk) {
	s.OnChunk(c.SourceAddr(), c.DestinationAddr(), c.UserData())
}

func (s *VerifSink) getStaticIPs() []net.IP { return nil }

func (s *VerifSink) setRouter(*Router) error { return nil }

// VerifInject hands a UDP chunk with the given payload to nic, as a router would.
func VerifInject(nic NIC, src, dst *net.UDPAddr, payload []byte) {
	c := newChunkUDP(src, dst)
	c.userData = payload
	nic.onInboundChunk(c)
}

// VerifRouterWANAddrs returns the addresses a (child) router holds on its parent's
// network, i.e. the addresses of its eth0 interface.
func VerifRouterWANAddrs(r *Router) []net.IP {
	ifc, err := r.getInterface("eth0")
	if err != nil {
		return nil
	}
	addrs, _ := ifc.Addrs()
	var out []net.IP
	for _, a := range addrs {
		switch v := a.(type) {
		case *net.IPNet:
			out = append(out, v.IP)
		case *net.IPAddr:
			out = append(out, v.IP)
		}
	}
	return out
}

// VerifInjectTCP hands a TCP chunk (SYN|ACK flags, given payload) to nic and returns the
// chunk's tag and string form as they were when it was handed in.
func VerifInjectTCP(nic NIC, src, dst *net.TCPAddr, payload []byte) (tag, str string) {
	c := newChunkTCP(src, dst, tcpSYN|tcpACK)
	c.userData = payload
	tag, str = c.Tag(), c.String()
	nic.onInboundChunk(c)
	return tag, str
}

// VerifInjectTCPPrepare is like VerifInjectTCP but reports tag and string form through
// before() ahead of the hand-over (filters forward synchronously).
func VerifInjectTCPPrepare(src, dst *net.TCPAddr, payload []byte, before func(tag, str string), nic NIC) (string, string) {
	c := newChunkTCP(src, dst, tcpSYN|tcpACK)
	c.userData = payload
	tag, str := c.Tag(), c.String()
	before(tag, str)
	nic.onInboundChunk(c)
	return tag, str
}

// VerifMetaSink is a NIC that reports network, tag and string form of every chunk.
type VerifMetaSink struct {
	VerifSink
	OnMeta func(network, tag, str string, payload []byte)
}

func (s *VerifMetaSink) onInboundChunk(c Chunk) {
	s.OnMeta(c.Network(), c.Tag(), c.String(), c.UserData())
}
