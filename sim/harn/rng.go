package harn

// Rng is the scenario generator's PRNG (SplitMix64); one per run, seeded from the run seed.
type Rng struct{ x uint64 }

// NewRng creates a generator.
func NewRng(seed uint64) *Rng { return &Rng{x: seed + 0x9e3779b97f4a7c15} }

// U64 returns 64 random bits.
func (r *Rng) U64() uint64 {
	r.x += 0x9e3779b97f4a7c15
	z := r.x
	z = (z ^ (z >> 30)) * 0xbf58476d1ce4e5b9
	z = (z ^ (z >> 27)) * 0x94d049bb133111eb
	return z ^ (z >> 31)
}

// Intn returns a value in [0,n).
func (r *Rng) Intn(n int) int {
	if n <= 1 {
		return 0
	}
	return int(r.U64() % uint64(n))
}

// Range returns a value in [lo,hi].
func (r *Rng) Range(lo, hi int) int {
	if hi <= lo {
		return lo
	}
	return lo + r.Intn(hi-lo+1)
}

// Bool returns true with probability p.
func (r *Rng) Bool(p float64) bool { return float64(r.U64()>>11)/(1<<53) < p }

// Float returns a value in [0,1).
func (r *Rng) Float() float64 { return float64(r.U64()>>11) / (1 << 53) }

// Pick returns one of the given ints.
func (r *Rng) Pick(xs ...int) int { return xs[r.Intn(len(xs))] }

// Bytes fills a fresh slice of length n with pseudo-random content derived from tag.
func Bytes(tag uint64, n int) []byte {
	b := make([]byte, n)
	x := tag*0x9e3779b97f4a7c15 + 0x1234567
	for i := range b {
		x ^= x << 13
		x ^= x >> 7
		x ^= x << 17
		b[i] = byte(x >> 24)
	}
	return b
}
