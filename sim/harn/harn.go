// Package harn is the per-property harness library: seeded exploration loop, swarm
// knobs, replay files, shrinking, and the per-process summary the driver merges into
// the evidence file.
package harn

import (
	"encoding/json"
	"fmt"
	"os"
	"path/filepath"
	"sort"
	"strconv"
	"strings"
	"testing"
	"time"

	"github.com/pion/transport/v3/zzverif/simrt"
)

// Spec describes one property check.
type Spec struct {
	ID string
	// Gen builds a scenario (JSON-serialisable) from the run's generator.
	Gen func(r *Rng, tier string) interface{}
	// New returns an empty scenario to decode a replay file into.
	New func() interface{}
	// Run executes the scenario as the main worker and reports violations via env.Fail.
	Run func(env *simrt.Env, sc interface{})
	// Shrink proposes smaller scenarios (optional).
	Shrink func(sc interface{}) []interface{}
	// Knobs may adjust the simulator configuration for a scenario (optional).
	Knobs func(r *Rng, sc interface{}, cfg *simrt.Config)
	// NonTrivial decides whether a finished run counts as non-trivial and gives the key
	// under which it is distinct (optional; default: >=2 workers and >=1 context switch,
	// keyed by the schedule hash).
	NonTrivial func(sc interface{}, res *simrt.Result) (bool, uint64)
	// Post checks the recorded history after the run, outside the bubble (optional).
	Post func(sc interface{}, res *simrt.Result) *simrt.Violation
	// LeakOK: unfinished workers at the end of a run are not a violation.
	LeakOK bool
	// NoShrink: failures cannot be re-run in the same process (the race detector reports
	// each race once per process); the replay file is written unminimised and confirmed
	// by the driver in a fresh process.
	NoShrink bool
	// Sequential: the scenario has a single worker (schedule knobs are irrelevant).
	Sequential bool
}

// Failure is one violating run.
type Failure struct {
	RunSeed uint64 `json:"runSeed"`
	Class   string `json:"class"`
	Detail  string `json:"detail"`
	Replay  string `json:"replay,omitempty"`
	Repro   bool   `json:"reproduced"`
	Steps   int    `json:"steps"`
	ShrunkFrom string `json:"shrunkFrom,omitempty"`
}

// Summary is what one exploring process reports.
type Summary struct {
	Property   string            `json:"property"`
	Proc       int               `json:"proc"`
	Seed       uint64            `json:"seed"`
	Tier       string            `json:"tier"`
	Runs       int               `json:"runs"`
	Steps      int64             `json:"steps"`
	SimNanos   int64             `json:"simNanos"`
	WallS      float64           `json:"wallS"`
	NonTrivial int               `json:"nonTrivial"`
	Keys       []uint64          `json:"keys"`
	Faults     map[string]int    `json:"faults"`
	Probes     map[string]int    `json:"probes"`
	Strategies map[string]int    `json:"strategies"`
	Samples    []json.RawMessage `json:"samples"`
	Failures   []Failure         `json:"failures"`
	Infra      []string          `json:"infra"`
	InfraN     int               `json:"infraN"`
	StepLimitN int               `json:"stepLimitN"`
	Stalls     int               `json:"stalls"`
	TimeJumps  int               `json:"timeJumps"`
	MaxWorkers int               `json:"maxWorkers"`
	FirstSeeds []uint64          `json:"firstSeeds"`
}

// ReplayFile is the on-disk format of a failing run.
type ReplayFile struct {
	Property  string           `json:"property"`
	Seed      uint64           `json:"seed"`
	Tier      string           `json:"tier"`
	Tool      map[string]string `json:"tool"`
	Config    simrt.Config     `json:"config"`
	Scenario  json.RawMessage  `json:"scenario"`
	Violation *simrt.Violation `json:"violation"`
	Note      string           `json:"note,omitempty"`
}

func envInt(name string, def int64) int64 {
	if v := os.Getenv(name); v != "" {
		if i, err := strconv.ParseInt(v, 10, 64); err == nil {
			return i
		}
		if u, err := strconv.ParseUint(v, 10, 64); err == nil {
			return int64(u)
		}
	}
	return def
}

func hashStr(s string) uint64 {
	h := uint64(1469598103934665603)
	for i := 0; i < len(s); i++ {
		h = (h ^ uint64(s[i])) * 1099511628211
	}
	return h
}

// DefaultKnobs draws the swarm configuration of one run.
func DefaultKnobs(r *Rng, sequential bool) simrt.Config {
	cfg := simrt.Config{Seed: r.U64(), RandSeed: r.U64(), JitterSeed: r.U64()}
	if sequential {
		cfg.Strategy = "uniform"
		cfg.Jitter = "1ns"
		return cfg
	}
	switch r.Intn(10) {
	case 0, 1, 2:
		cfg.Strategy = "uniform"
	case 3, 4, 5:
		cfg.Strategy = "sticky"
		cfg.SwitchP = []float64{0.02, 0.1, 0.3, 0.5}[r.Intn(4)]
	case 6, 7:
		cfg.Strategy = "targeted"
	default:
		cfg.Strategy = "pct"
		cfg.PCTDepth = 1 + r.Intn(3)
	}
	cfg.Jitter = []string{"1ns", "1ns", "small", "mixed"}[r.Intn(4)]
	cfg.TimerLegacy = r.Intn(2) == 0
	if r.Intn(3) == 0 {
		cfg.StallP = []float64{0.002, 0.01, 0.05}[r.Intn(3)]
	}
	cfg.PostUnlockYield = r.Intn(5) < 2
	cfg.AtomicYield = r.Intn(4) < 3
	return cfg
}

func violationOf(spec *Spec, res *simrt.Result) *simrt.Violation {
	if res.Violation != nil {
		return res.Violation
	}
	if res.Infra != "" || res.StepLimit {
		return nil
	}
	if len(res.Leaked) > 0 && !spec.LeakOK {
		sites := map[string]bool{}
		for _, l := range res.Leaked {
			if i := strings.Index(l, "@"); i >= 0 {
				sites[l[i+1:]] = true
			}
		}
		var ss []string
		for s := range sites {
			ss = append(ss, s)
		}
		sort.Strings(ss)
		return &simrt.Violation{Class: "stuck:" + strings.Join(ss, ","), Detail: "workers never finished: " + strings.Join(res.Leaked, " ")}
	}
	return nil
}

// RunOne executes one scenario under one configuration.
func RunOne(t *testing.T, spec *Spec, sc interface{}, cfg simrt.Config) (simrt.Result, *simrt.Violation) {
	res := simrt.Run(t, cfg, func(env *simrt.Env) { spec.Run(env, sc) })
	v := violationOf(spec, &res)
	if v == nil && spec.Post != nil && res.Infra == "" && !res.StepLimit {
		v = spec.Post(sc, &res)
	}
	return res, v
}

func toolInfo() map[string]string {
	return map[string]string{"go": "go1.26.8", "simulator": "simrt+simgen (synctest bubble, controller, choice tape)"}
}

// Main is the entry point of a harness test binary.
func Main(t *testing.T, spec *Spec) {
	mode := os.Getenv("VERIF_MODE")
	switch mode {
	case "replay":
		replayMain(t, spec)
	default:
		exploreMain(t, spec)
	}
}

func runSeedFor(spec *Spec, seed uint64, proc, i int) uint64 {
	return simrt.Mix(simrt.Mix(seed, hashStr(spec.ID)), uint64(proc)<<40|uint64(i))
}

func exploreMain(t *testing.T, spec *Spec) {
	seed := uint64(envInt("VERIF_SEED", 1))
	proc := int(envInt("VERIF_PROC", 0))
	budget := time.Duration(envInt("VERIF_BUDGET_S", 10)) * time.Second
	maxRuns := int(envInt("VERIF_RUNS", 1<<40))
	tier := os.Getenv("VERIF_TIER")
	if tier == "" {
		tier = "quick"
	}
	outPath := os.Getenv("VERIF_OUT")
	replayDir := os.Getenv("VERIF_REPLAY_DIR")
	runLog := os.Getenv("VERIF_RUNLOG")
	trace := os.Getenv("VERIF_TRACE") == "1"
	maxFail := int(envInt("VERIF_MAXFAIL", 3))

	sum := &Summary{Property: spec.ID, Proc: proc, Seed: seed, Tier: tier,
		Faults: map[string]int{}, Probes: map[string]int{}, Strategies: map[string]int{}}
	keys := map[uint64]bool{}
	classes := map[string]int{}
	var logf *os.File
	if runLog != "" {
		f, err := os.Create(runLog)
		if err != nil {
			t.Fatalf("runlog: %v", err)
		}
		defer f.Close()
		logf = f
	}
	start := time.Now()
	for i := 0; i < maxRuns; i++ {
		if time.Since(start) > budget {
			break
		}
		rs := runSeedFor(spec, seed, proc, i)
		r := NewRng(rs)
		sc := spec.Gen(r, tier)
		cfg := DefaultKnobs(r, spec.Sequential)
		if spec.Knobs != nil {
			spec.Knobs(r, sc, &cfg)
		}
		cfg.Trace = trace
		if outPath != "" {
			// should the code under test crash the whole process (fatal runtime error), the
			// driver replays this file in a fresh process
			_ = writeReplay(outPath+".current.json", spec, sc, cfg, nil, rs, tier, "in-progress")
		}
		res, v := RunOne(t, spec, sc, cfg)
		sum.Runs++
		sum.Steps += int64(res.Steps)
		sum.SimNanos += int64(res.SimTime)
		sum.Stalls += res.Stalls
		sum.TimeJumps += res.TimeJumps
		sum.Strategies[cfg.Strategy]++
		if res.Workers > sum.MaxWorkers {
			sum.MaxWorkers = res.Workers
		}
		if len(sum.FirstSeeds) < 5 {
			sum.FirstSeeds = append(sum.FirstSeeds, rs)
		}
		for k, n := range res.Faults {
			sum.Faults[k] += n
		}
		for k, n := range res.Probes {
			sum.Probes[k] += n
		}
		if logf != nil {
			cls := ""
			if v != nil {
				cls = v.Class
			}
			th := uint64(0)
			for _, l := range res.Trace {
				th = th*1099511628211 ^ hashStr(l)
			}
			fmt.Fprintf(logf, "%d %d %x %d %d %d %x %q %q\n", i, rs, res.SchedHash, res.Steps, res.Workers, int64(res.SimTime), th, cls, res.Infra)
		}
		if res.Infra != "" {
			sum.InfraN++
			if len(sum.Infra) < 5 {
				sum.Infra = append(sum.Infra, fmt.Sprintf("seed=%d: %s", rs, res.Infra))
			}
			continue
		}
		if res.StepLimit {
			sum.StepLimitN++
			if len(sum.Infra) < 5 {
				sum.Infra = append(sum.Infra, fmt.Sprintf("seed=%d: step limit (%d steps)", rs, res.Steps))
			}
			continue
		}
		nt, key := false, res.SchedHash
		if spec.NonTrivial != nil {
			nt, key = spec.NonTrivial(sc, &res)
		} else {
			nt = res.Workers >= 2 && res.Switches >= 1
		}
		if nt {
			sum.NonTrivial++
			if len(keys) < 400000 {
				keys[key] = true
			}
		}
		if len(sum.Samples) < 2 || (i%997 == 0 && len(sum.Samples) < 4) {
			if b, err := json.Marshal(sc); err == nil && len(b) < 20000 {
				sum.Samples = append(sum.Samples, b)
			}
		}
		if v != nil {
			classes[v.Class]++
			if classes[v.Class] == 1 && len(classes) <= maxFail {
				f := Failure{RunSeed: rs, Class: v.Class, Detail: v.Detail, Steps: res.Steps}
				if replayDir != "" {
					f.Replay, f.Repro = shrinkAndSave(t, spec, sc, cfg, &res, v, rs, tier, replayDir)
				}
				sum.Failures = append(sum.Failures, f)
			} else if len(sum.Failures) < 50 {
				sum.Failures = append(sum.Failures, Failure{RunSeed: rs, Class: v.Class, Detail: truncate(v.Detail, 300), Steps: res.Steps})
			}
			if len(classes) > maxFail {
				break
			}
		}
	}
	sum.WallS = time.Since(start).Seconds()
	for k := range keys {
		sum.Keys = append(sum.Keys, k)
	}
	sort.Slice(sum.Keys, func(i, j int) bool { return sum.Keys[i] < sum.Keys[j] })
	b, _ := json.Marshal(sum)
	if outPath != "" {
		if err := os.WriteFile(outPath, b, 0o644); err != nil {
			t.Fatalf("write summary: %v", err)
		}
	} else {
		fmt.Printf("SUMMARY runs=%d steps=%d nontrivial=%d distinct=%d failures=%d infra=%d steplimit=%d wall=%.1fs\n",
			sum.Runs, sum.Steps, sum.NonTrivial, len(sum.Keys), len(sum.Failures), sum.InfraN, sum.StepLimitN, sum.WallS)
		for _, f := range sum.Failures {
			fmt.Printf("FAILURE seed=%d class=%s replay=%s repro=%v\n  %s\n", f.RunSeed, f.Class, f.Replay, f.Repro, truncate(f.Detail, 600))
		}
		for _, s := range sum.Infra {
			fmt.Println("INFRA", s)
		}
	}
}

func truncate(s string, n int) string {
	if len(s) <= n {
		return s
	}
	return s[:n] + "…"
}

func writeReplay(path string, spec *Spec, sc interface{}, cfg simrt.Config, v *simrt.Violation, rs uint64, tier, note string) error {
	scb, err := json.Marshal(sc)
	if err != nil {
		return err
	}
	rf := ReplayFile{Property: spec.ID, Seed: rs, Tier: tier, Tool: toolInfo(), Config: cfg, Scenario: scb, Violation: v, Note: note}
	b, err := json.MarshalIndent(rf, "", " ")
	if err != nil {
		return err
	}
	return os.WriteFile(path, b, 0o644)
}

// roundTrip re-decodes a scenario through JSON so that a replayed scenario is exactly
// what the file will contain.
func roundTrip(spec *Spec, sc interface{}) interface{} {
	b, err := json.Marshal(sc)
	if err != nil {
		return sc
	}
	n := spec.New()
	if err := json.Unmarshal(b, n); err != nil {
		return sc
	}
	return n
}

func shrinkAndSave(t *testing.T, spec *Spec, sc interface{}, cfg simrt.Config, res *simrt.Result, v *simrt.Violation, rs uint64, tier, dir string) (string, bool) {
	_ = os.MkdirAll(dir, 0o755)
	base := filepath.Join(dir, fmt.Sprintf("%s-%d", spec.ID, rs))
	rcfg := cfg
	rcfg.Replay = true
	rcfg.Tape = append([]uint32(nil), res.Tape...)
	rcfg.Trace = false
	sc = roundTrip(spec, sc)
	_ = writeReplay(base+".orig.json", spec, sc, rcfg, v, rs, tier, "unminimised")
	if spec.NoShrink {
		_ = writeReplay(base+".json", spec, sc, rcfg, v, rs, tier, "unminimised (re-running in the same process is not possible for this check)")
		return base + ".json", true
	}
	// confirm that the tape reproduces the failure in this process
	_, v2 := RunOne(t, spec, sc, rcfg)
	if v2 == nil || v2.Class != v.Class {
		got := "no violation"
		if v2 != nil {
			got = v2.Class
		}
		_ = writeReplay(base+".json", spec, sc, rcfg, v, rs, tier, "NOT REPRODUCED on immediate replay: got "+got)
		return base + ".json", false
	}
	msc, mcfg, mv := shrink(t, spec, sc, rcfg, v2, rs)
	_ = writeReplay(base+".json", spec, msc, mcfg, mv, rs, tier, "minimised")
	return base + ".json", true
}

func replayMain(t *testing.T, spec *Spec) {
	path := os.Getenv("VERIF_REPLAY")
	b, err := os.ReadFile(path)
	if err != nil {
		fmt.Printf("REPLAY-ERROR %v\n", err)
		os.Exit(2)
	}
	var rf ReplayFile
	if err := json.Unmarshal(b, &rf); err != nil {
		fmt.Printf("REPLAY-ERROR %v\n", err)
		os.Exit(2)
	}
	sc := spec.New()
	if err := json.Unmarshal(rf.Scenario, sc); err != nil {
		fmt.Printf("REPLAY-ERROR scenario: %v\n", err)
		os.Exit(2)
	}
	cfg := rf.Config
	cfg.Replay = rf.Note != "in-progress" // a crashed run has no tape yet: its seeds reproduce it
	cfg.Trace = os.Getenv("VERIF_TRACE") == "1"
	res, v := RunOne(t, spec, sc, cfg)
	if cfg.Trace {
		for _, l := range res.Trace {
			fmt.Println("TRACE", l)
		}
	}
	out := map[string]interface{}{"property": spec.ID, "steps": res.Steps, "infra": res.Infra}
	if v != nil {
		out["class"] = v.Class
		out["detail"] = v.Detail
		out["event"] = v.Event
	}
	want := ""
	if rf.Violation != nil {
		want = rf.Violation.Class
	}
	out["expected"] = want
	out["reproduced"] = v != nil && v.Class == want
	ob, _ := json.Marshal(out)
	fmt.Printf("REPLAY-RESULT %s\n", ob)
}
