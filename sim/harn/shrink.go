package harn

import (
	"testing"
	"time"

	"github.com/pion/transport/v3/zzverif/simrt"
)

// shrink minimises a failing (scenario, tape): scenario candidates from spec.Shrink are
// tried first under the recorded tape and then under a few fresh schedules; afterwards
// the tape is truncated and zeroed chunk-wise. A candidate is kept only if the same
// violation class fails.
func shrink(t *testing.T, spec *Spec, sc interface{}, cfg simrt.Config, v *simrt.Violation, rs uint64) (interface{}, simrt.Config, *simrt.Violation) {
	class := v.Class
	deadline := time.Now().Add(time.Duration(envInt("VERIF_SHRINK_S", 40)) * time.Second)
	budget := int(envInt("VERIF_SHRINK_RUNS", 3000))
	runs := 0
	try := func(c interface{}, k simrt.Config) (*simrt.Result, *simrt.Violation) {
		if runs >= budget || time.Now().After(deadline) {
			return nil, nil
		}
		runs++
		res, vv := RunOne(t, spec, c, k)
		if vv != nil && vv.Class == class {
			return &res, vv
		}
		return nil, nil
	}
	exhausted := func() bool { return runs >= budget || time.Now().After(deadline) }

	for round := 0; round < 50 && !exhausted(); round++ {
		progress := false
		// scenario level
		if spec.Shrink != nil {
			for again := true; again && !exhausted(); {
				again = false
				for _, cand := range spec.Shrink(sc) {
					cand = roundTrip(spec, cand)
					if _, vv := try(cand, cfg); vv != nil {
						sc, v, again, progress = cand, vv, true, true
						break
					}
					if spec.Sequential {
						continue
					}
					// the old tape may not fit the smaller scenario: try fresh schedules
					found := false
					for j := 0; j < 12 && !exhausted(); j++ {
						k := cfg
						k.Replay = false
						k.Tape = nil
						k.Seed = simrt.Mix(rs, uint64(round*1000+j)+uint64(runs)<<20)
						if res, vv := try(cand, k); vv != nil {
							k.Replay = true
							k.Tape = append([]uint32(nil), res.Tape...)
							// confirm under replay
							if _, v3 := try(cand, k); v3 != nil {
								sc, cfg, v, found = cand, k, v3, true
							}
							break
						}
					}
					if found {
						again, progress = true, true
						break
					}
				}
			}
		}
		// tape level: truncate
		tape := cfg.Tape
		for n := len(tape) / 2; n >= 1 && !exhausted(); n /= 2 {
			for len(tape) > 0 {
				cut := len(tape) - n
				if cut < 0 {
					cut = 0
				}
				k := cfg
				k.Tape = append([]uint32(nil), tape[:cut]...)
				if _, vv := try(sc, k); vv != nil {
					tape, cfg, v, progress = k.Tape, k, vv, true
				} else {
					break
				}
			}
		}
		// drop trailing zeros (implicit)
		for len(tape) > 0 && tape[len(tape)-1] == 0 {
			tape = tape[:len(tape)-1]
		}
		cfg.Tape = tape
		// zero chunks
		for n := len(tape) / 2; n >= 1 && !exhausted(); n /= 2 {
			for i := 0; i+n <= len(tape) && !exhausted(); i += n {
				allZero := true
				for _, x := range tape[i : i+n] {
					if x != 0 {
						allZero = false
					}
				}
				if allZero {
					continue
				}
				nt := append([]uint32(nil), tape...)
				for j := i; j < i+n; j++ {
					nt[j] = 0
				}
				k := cfg
				k.Tape = nt
				if _, vv := try(sc, k); vv != nil {
					tape, cfg, v, progress = nt, k, vv, true
				}
			}
		}
		cfg.Tape = tape
		if !progress {
			break
		}
	}
	// also simplify knobs where the failure survives
	if cfg.StallP != 0 {
		k := cfg
		k.StallP = 0
		if _, vv := try(sc, k); vv != nil {
			cfg, v = k, vv
		}
	}
	if cfg.Jitter != "1ns" {
		k := cfg
		k.Jitter = "1ns"
		if _, vv := try(sc, k); vv != nil {
			cfg, v = k, vv
		}
	}
	return sc, cfg, v
}
