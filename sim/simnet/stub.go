package simnet
