package simnet

import (
	"errors"
	"io"
	"net"
	"os"
	"sync"
	"time"

	"github.com/pion/transport/v3/zzverif/simrt"
)

// Stream and Packet pipes with proper deadline behaviour and a ground-truth log, used as
// the wrapped connection under netctx/connctx (C17). Written in plain Go and instrumented
// by simgen.

// CallRecord is the outcome of one underlying Read/Write call.
type CallRecord struct {
	N   int
	Err error
}

type pipeAddr string

func (a pipeAddr) Network() string { return "simpipe" }
func (a pipeAddr) String() string  { return string(a) }

// Stream is one end of an in-memory byte stream (net.Conn).
type Stream struct {
	name  string
	moved string
	peer  *Stream

	mu       sync.Mutex
	buf      []byte // bytes waiting to be read at this end
	wake     chan struct{}
	closed   bool
	peerGone bool
	readDL   time.Time
	writeDL  time.Time
	capacity int
	maxChunk int // Read returns at most this many bytes (short reads); 0 = no limit

	setErr     error // injected: the next Set*Deadline call fails with it
	SetErrUsed int

	Reads    []CallRecord // every underlying Read call, in order
	Writes   []CallRecord
	Received []byte // bytes returned by Read calls
	Moved    []byte // bytes moved into the peer's buffer by Write calls
}

// StreamPipe creates a connected pair; capacity is the per-direction buffer size.
func StreamPipe(capacity, maxChunk int) (*Stream, *Stream) {
	a := &Stream{name: "a", wake: make(chan struct{}), capacity: capacity, maxChunk: maxChunk}
	b := &Stream{name: "b", wake: make(chan struct{}), capacity: capacity, maxChunk: maxChunk}
	a.peer, b.peer = b, a
	return a, b
}

func (s *Stream) broadcastLocked() {
	close(s.wake)
	s.wake = make(chan struct{})
}

var errDeadline = os.ErrDeadlineExceeded

func timeoutErr(op string) error { return &net.OpError{Op: op, Net: "simpipe", Err: errDeadline} }

// Read implements net.Conn.
func (s *Stream) Read(b []byte) (int, error) {
	n, err := s.read(b)
	s.mu.Lock()
	s.Reads = append(s.Reads, CallRecord{n, err})
	s.Received = append(s.Received, b[:n]...)
	s.mu.Unlock()
	return n, err
}

func (s *Stream) read(b []byte) (int, error) {
	for {
		s.mu.Lock()
		if s.closed {
			s.mu.Unlock()
			return 0, io.ErrClosedPipe
		}
		if !s.readDL.IsZero() && !time.Now().Before(s.readDL) {
			s.mu.Unlock()
			return 0, timeoutErr("read")
		}
		if len(s.buf) > 0 {
			max := len(b)
			if s.maxChunk > 0 && max > s.maxChunk {
				max = s.maxChunk
			}
			n := copy(b[:max], s.buf)
			s.buf = s.buf[n:]
			s.broadcastLocked() // space for the writer
			s.mu.Unlock()
			return n, nil
		}
		if s.peerGone {
			s.mu.Unlock()
			return 0, io.EOF
		}
		if len(b) == 0 {
			s.mu.Unlock()
			return 0, nil
		}
		var timerC <-chan time.Time
		if !s.readDL.IsZero() {
			timerC = time.NewTimer(time.Until(s.readDL)).C
		}
		wake := s.wake
		s.mu.Unlock()
		select {
		case <-wake:
		case <-timerC:
		}
	}
}

// Write implements net.Conn: it may make partial progress before a deadline interrupts it.
func (s *Stream) Write(b []byte) (int, error) {
	n, err := s.write(b)
	s.mu.Lock()
	s.Writes = append(s.Writes, CallRecord{n, err})
	s.mu.Unlock()
	return n, err
}

func (s *Stream) write(b []byte) (int, error) {
	p := s.peer
	done := 0
	for {
		s.mu.Lock()
		closed, dl := s.closed, s.writeDL
		wakeSelf := s.wake
		s.mu.Unlock()
		if closed {
			return done, io.ErrClosedPipe
		}
		if !dl.IsZero() && !time.Now().Before(dl) {
			return done, timeoutErr("write")
		}
		p.mu.Lock()
		if p.closed {
			p.mu.Unlock()
			return done, io.ErrClosedPipe
		}
		room := p.capacity - len(p.buf)
		moved := 0
		if room > 0 && done < len(b) {
			k := len(b) - done
			if k > room {
				k = room
				simrt.CountProbe("partial-write-progress")
			}
			p.buf = append(p.buf, b[done:done+k]...)
			moved = k
			p.broadcastLocked()
		}
		wakePeer := p.wake
		p.mu.Unlock()
		if moved > 0 {
			// never hold both ends' locks at once (two writers would deadlock)
			s.mu.Lock()
			s.Moved = append(s.Moved, b[done:done+moved]...)
			s.mu.Unlock()
			done += moved
		}
		if done == len(b) {
			return done, nil
		}
		var timerC <-chan time.Time
		if !dl.IsZero() {
			timerC = time.NewTimer(time.Until(dl)).C
		}
		select {
		case <-wakePeer: // the reader made room (or the peer closed)
		case <-wakeSelf: // own deadline changed or own end closed
		case <-timerC:
		}
	}
}

// Close implements net.Conn.
func (s *Stream) Close() error {
	s.mu.Lock()
	if s.closed {
		s.mu.Unlock()
		return nil
	}
	s.closed = true
	s.broadcastLocked()
	s.mu.Unlock()
	p := s.peer
	p.mu.Lock()
	p.peerGone = true
	p.broadcastLocked()
	p.mu.Unlock()
	return nil
}

// InjectSetDeadlineError makes the next Set*Deadline call fail.
func (s *Stream) InjectSetDeadlineError(err error) {
	s.mu.Lock()
	s.setErr = err
	s.mu.Unlock()
}

func (s *Stream) takeSetErr() error {
	if s.setErr != nil {
		err := s.setErr
		s.setErr = nil
		s.SetErrUsed++
		simrt.CountFault("set-deadline-error")
		return err
	}
	return nil
}

// SetDeadline implements net.Conn.
func (s *Stream) SetDeadline(t time.Time) error {
	s.mu.Lock()
	defer s.mu.Unlock()
	if err := s.takeSetErr(); err != nil {
		return err
	}
	s.readDL, s.writeDL = t, t
	s.broadcastLocked()
	return nil
}

// SetReadDeadline implements net.Conn.
func (s *Stream) SetReadDeadline(t time.Time) error {
	s.mu.Lock()
	defer s.mu.Unlock()
	if err := s.takeSetErr(); err != nil {
		return err
	}
	s.readDL = t
	s.broadcastLocked()
	return nil
}

// SetWriteDeadline implements net.Conn.
func (s *Stream) SetWriteDeadline(t time.Time) error {
	s.mu.Lock()
	defer s.mu.Unlock()
	if err := s.takeSetErr(); err != nil {
		return err
	}
	s.writeDL = t
	s.broadcastLocked()
	return nil
}

// Deadlines returns the current read and write deadlines (ground truth for the oracle).
func (s *Stream) Deadlines() (time.Time, time.Time) {
	s.mu.Lock()
	defer s.mu.Unlock()
	return s.readDL, s.writeDL
}

// Snapshot returns copies of the logs.
func (s *Stream) Snapshot() (reads, writes []CallRecord, received, moved []byte) {
	s.mu.Lock()
	defer s.mu.Unlock()
	return append([]CallRecord(nil), s.Reads...), append([]CallRecord(nil), s.Writes...),
		append([]byte(nil), s.Received...), append([]byte(nil), s.Moved...)
}

// LocalAddr implements net.Conn.
func (s *Stream) LocalAddr() net.Addr { return pipeAddr(s.name) }

// RemoteAddr implements net.Conn.
func (s *Stream) RemoteAddr() net.Addr {
	if s.moved != "" {
		return pipeAddr(s.moved)
	}
	return pipeAddr(s.peer.name)
}

// MoveRemote makes RemoteAddr report another address from now on (a peer that changed its
// address, as after a NAT re-binding or a candidate switch).
func (s *Stream) MoveRemote(name string) { s.moved = name }

// ---------------------------------------------------------------------------

// Packet is one end of an in-memory datagram pipe (net.PacketConn).
type Packet struct {
	name  string
	moved string
	peer  *Packet

	mu       sync.Mutex
	queue    [][]byte
	wake     chan struct{}
	closed   bool
	readDL   time.Time
	writeDL  time.Time
	capacity int
	setErr   error

	// ShortBufferError: a datagram longer than the reader's slice is returned cut together
	// with io.ErrShortBuffer (otherwise cut silently)
	ShortBufferError bool

	Reads    []CallRecord
	Writes   []CallRecord
	Received [][]byte
	Moved    [][]byte
}

// PacketPipe creates a connected pair; capacity is the queue length per direction.
func PacketPipe(capacity int) (*Packet, *Packet) {
	a := &Packet{name: "pa", wake: make(chan struct{}), capacity: capacity}
	b := &Packet{name: "pb", wake: make(chan struct{}), capacity: capacity}
	a.peer, b.peer = b, a
	return a, b
}

func (s *Packet) broadcastLocked() {
	close(s.wake)
	s.wake = make(chan struct{})
}

// ReadFrom implements net.PacketConn.
func (s *Packet) ReadFrom(b []byte) (int, net.Addr, error) {
	n, err := s.readFrom(b)
	s.mu.Lock()
	s.Reads = append(s.Reads, CallRecord{n, err})
	if err == nil || n > 0 {
		s.Received = append(s.Received, append([]byte(nil), b[:n]...))
	}
	s.mu.Unlock()
	if err != nil {
		return n, nil, err
	}
	return n, pipeAddr(s.peer.name), nil
}

func (s *Packet) readFrom(b []byte) (int, error) {
	for {
		s.mu.Lock()
		if s.closed {
			s.mu.Unlock()
			return 0, net.ErrClosed
		}
		if !s.readDL.IsZero() && !time.Now().Before(s.readDL) {
			s.mu.Unlock()
			return 0, timeoutErr("read")
		}
		if len(s.queue) > 0 {
			d := s.queue[0]
			s.queue = s.queue[1:]
			s.broadcastLocked()
			short := s.ShortBufferError && len(d) > len(b)
			s.mu.Unlock()
			if short {
				// like vnet.UDPConn (and UDP on some platforms): the leading bytes together with an error
				return copy(b, d), io.ErrShortBuffer
			}
			return copy(b, d), nil
		}
		var timerC <-chan time.Time
		if !s.readDL.IsZero() {
			timerC = time.NewTimer(time.Until(s.readDL)).C
		}
		wake := s.wake
		s.mu.Unlock()
		select {
		case <-wake:
		case <-timerC:
		}
	}
}

// WriteTo implements net.PacketConn: blocks while the peer's queue is full.
func (s *Packet) WriteTo(b []byte, _ net.Addr) (int, error) {
	n, err := s.writeTo(b)
	s.mu.Lock()
	s.Writes = append(s.Writes, CallRecord{n, err})
	s.mu.Unlock()
	return n, err
}

func (s *Packet) writeTo(b []byte) (int, error) {
	p := s.peer
	for {
		s.mu.Lock()
		closed, dl := s.closed, s.writeDL
		wakeSelf := s.wake
		s.mu.Unlock()
		if closed {
			return 0, net.ErrClosed
		}
		if !dl.IsZero() && !time.Now().Before(dl) {
			return 0, timeoutErr("write")
		}
		p.mu.Lock()
		if p.closed {
			p.mu.Unlock()
			return len(b), nil // datagrams to a closed peer vanish
		}
		if len(p.queue) < p.capacity {
			d := append([]byte(nil), b...)
			p.queue = append(p.queue, d)
			p.broadcastLocked()
			p.mu.Unlock()
			s.mu.Lock()
			s.Moved = append(s.Moved, d)
			s.mu.Unlock()
			return len(b), nil
		}
		wakePeer := p.wake
		p.mu.Unlock()
		var timerC <-chan time.Time
		if !dl.IsZero() {
			timerC = time.NewTimer(time.Until(dl)).C
		}
		select {
		case <-wakePeer:
		case <-wakeSelf:
		case <-timerC:
		}
	}
}

// Close implements net.PacketConn.
func (s *Packet) Close() error {
	s.mu.Lock()
	s.closed = true
	s.broadcastLocked()
	s.mu.Unlock()
	p := s.peer
	p.mu.Lock()
	p.broadcastLocked()
	p.mu.Unlock()
	return nil
}

// InjectSetDeadlineError makes the next Set*Deadline call fail.
func (s *Packet) InjectSetDeadlineError(err error) {
	s.mu.Lock()
	s.setErr = err
	s.mu.Unlock()
}

func (s *Packet) takeSetErr() error {
	if s.setErr != nil {
		err := s.setErr
		s.setErr = nil
		simrt.CountFault("set-deadline-error")
		return err
	}
	return nil
}

// SetDeadline implements net.PacketConn.
func (s *Packet) SetDeadline(t time.Time) error {
	s.mu.Lock()
	defer s.mu.Unlock()
	if err := s.takeSetErr(); err != nil {
		return err
	}
	s.readDL, s.writeDL = t, t
	s.broadcastLocked()
	return nil
}

// SetReadDeadline implements net.PacketConn.
func (s *Packet) SetReadDeadline(t time.Time) error {
	s.mu.Lock()
	defer s.mu.Unlock()
	if err := s.takeSetErr(); err != nil {
		return err
	}
	s.readDL = t
	s.broadcastLocked()
	return nil
}

// SetWriteDeadline implements net.PacketConn.
func (s *Packet) SetWriteDeadline(t time.Time) error {
	s.mu.Lock()
	defer s.mu.Unlock()
	if err := s.takeSetErr(); err != nil {
		return err
	}
	s.writeDL = t
	s.broadcastLocked()
	return nil
}

// Deadlines returns the current read and write deadlines.
func (s *Packet) Deadlines() (time.Time, time.Time) {
	s.mu.Lock()
	defer s.mu.Unlock()
	return s.readDL, s.writeDL
}

// Snapshot returns copies of the logs.
func (s *Packet) Snapshot() (reads, writes []CallRecord, received, moved [][]byte) {
	s.mu.Lock()
	defer s.mu.Unlock()
	return append([]CallRecord(nil), s.Reads...), append([]CallRecord(nil), s.Writes...),
		append([][]byte(nil), s.Received...), append([][]byte(nil), s.Moved...)
}

// LocalAddr implements net.PacketConn.
func (s *Packet) LocalAddr() net.Addr { return pipeAddr(s.name) }

// ErrInjected is the error used for injected faults.
var ErrInjected = errors.New("simnet: injected fault")

// Read, Write and RemoteAddr make a Packet end usable as a message-preserving net.Conn
// (like dpipe or net.Pipe: one Write is one Read, empty messages included).
func (s *Packet) Read(b []byte) (int, error) {
	n, _, err := s.ReadFrom(b)
	return n, err
}

func (s *Packet) Write(b []byte) (int, error) { return s.WriteTo(b, nil) }

func (s *Packet) RemoteAddr() net.Addr {
	if s.moved != "" {
		return pipeAddr(s.moved)
	}
	return pipeAddr(s.peer.name)
}

// MoveRemote makes RemoteAddr report another address from now on.
func (s *Packet) MoveRemote(name string) { s.moved = name }
