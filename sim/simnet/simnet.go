// Package simnet is the in-memory UDP "kernel" that replaces the operating-system
// socket under the udp package during simulation: a port table, per-socket receive
// queues, read deadlines, and a seeded fault plan per datagram (drop, duplicate, delay /
// reorder) and per socket (read error, write error, receive-queue overflow). It records
// exactly what every ReadFrom/ReadBatch returned and every Close, which is what the
// oracles of C11/C12 are stated against.
//
// The package is written in plain Go and instrumented by simgen like the code under
// test, so all its blocking goes through the controller.
package simnet

import (
	"errors"
	"fmt"
	"net"
	"os"
	"sync"
	"time"

	"github.com/pion/transport/v3/zzverif/simrt"
	"golang.org/x/net/ipv4"
)

// Faults is the per-datagram fault plan of the kernel.
type Faults struct {
	DropP    float64
	DupP     float64
	DelayP   float64
	MaxDelay time.Duration
	QueueCap int // receive queue capacity in datagrams (0 = 4096)
}

// ReadRecord is one datagram returned by ReadFrom/ReadBatch of a socket.
type ReadRecord struct {
	Sock    string // local address of the reading socket
	From    string
	Payload []byte
	Stamp   uint64
	Call    int // index of the ReadFrom/ReadBatch call that returned it
}

// CloseRecord is one Close call on a socket.
type CloseRecord struct {
	Sock  string
	Stamp uint64
	First bool
}

type kernel struct {
	mu      sync.Mutex
	socks   map[string]*UDPConn
	faults  Faults
	reads   []ReadRecord
	closes  []CloseRecord
	stamp   func() uint64
	nextEph int
	calls   int
}

var k = &kernel{socks: map[string]*UDPConn{}}

// Reset clears the kernel; stamp provides the global event stamps of the run.
func Reset(stamp func() uint64) {
	k = &kernel{socks: map[string]*UDPConn{}, stamp: stamp, nextEph: 40000}
}

// SetFaults installs the datagram fault plan.
func SetFaults(f Faults) {
	k.mu.Lock()
	k.faults = f
	k.mu.Unlock()
}

// Reads returns what the sockets' read calls returned so far, in order.
func Reads() []ReadRecord {
	k.mu.Lock()
	defer k.mu.Unlock()
	return append([]ReadRecord(nil), k.reads...)
}

// Closes returns the Close calls observed so far.
func Closes() []CloseRecord {
	k.mu.Lock()
	defer k.mu.Unlock()
	return append([]CloseRecord(nil), k.closes...)
}

// Bound reports whether a socket is bound to addr.
func Bound(addr string) bool {
	k.mu.Lock()
	defer k.mu.Unlock()
	_, ok := k.socks[addr]
	return ok
}

type dgram struct {
	from    *net.UDPAddr
	payload []byte
}

// UDPConn is the stub socket.
type UDPConn struct {
	local *net.UDPAddr
	key   string

	mu       sync.Mutex
	queue    []dgram
	wake     chan struct{} // closed and replaced on every state change
	closed   bool
	deadline time.Time
	readErr  error // injected: the next read fails with it
	writeErr error
	closeErr error
}

var errInUse = errors.New("bind: address already in use")

// ListenUDP replaces net.ListenUDP.
func ListenUDP(network string, laddr *net.UDPAddr) (*UDPConn, error) {
	if laddr == nil {
		laddr = &net.UDPAddr{IP: net.IPv4(127, 0, 0, 1)}
	}
	ip := laddr.IP
	if ip == nil || ip.IsUnspecified() {
		ip = net.IPv4(127, 0, 0, 1)
	}
	k.mu.Lock()
	defer k.mu.Unlock()
	port := laddr.Port
	if port == 0 {
		for {
			k.nextEph++
			port = k.nextEph
			if _, used := k.socks[fmt.Sprintf("%s:%d", ip, port)]; !used {
				break
			}
		}
	}
	a := &net.UDPAddr{IP: ip, Port: port, Zone: laddr.Zone}
	key := a.String()
	if _, used := k.socks[key]; used {
		return nil, &net.OpError{Op: "listen", Net: network, Addr: a, Err: errInUse}
	}
	c := &UDPConn{local: a, key: key, wake: make(chan struct{})}
	k.socks[key] = c
	return c, nil
}

func (c *UDPConn) broadcastLocked() {
	close(c.wake)
	c.wake = make(chan struct{})
}

// InjectReadError makes the next read of the socket fail with err.
func (c *UDPConn) InjectReadError(err error) {
	c.mu.Lock()
	c.readErr = err
	c.broadcastLocked()
	c.mu.Unlock()
	simrt.CountFault("socket-read-error")
}

// InjectReadError makes the next read of the socket bound to addr fail with err.
func InjectReadError(addr string, err error) {
	k.mu.Lock()
	c := k.socks[addr]
	k.mu.Unlock()
	if c != nil {
		c.InjectReadError(err)
	}
}

// InjectWriteError makes the next write fail with err.
func (c *UDPConn) InjectWriteError(err error) {
	c.mu.Lock()
	c.writeErr = err
	c.mu.Unlock()
}

// InjectWriteError makes the next write of the socket bound to addr fail with err.
func InjectWriteError(addr string, err error) {
	k.mu.Lock()
	c := k.socks[addr]
	k.mu.Unlock()
	if c != nil {
		c.InjectWriteError(err)
	}
}

// MaxDatagram is the largest UDP payload the simulated kernel sends (as on Linux/IPv4).
const MaxDatagram = 65507

// InjectCloseError makes Close report err (the socket is closed nevertheless).
func (c *UDPConn) InjectCloseError(err error) {
	c.mu.Lock()
	c.closeErr = err
	c.mu.Unlock()
}

// deliver appends a datagram to the receive queue (drops it when the queue is full or
// the socket is closed).
func (c *UDPConn) deliver(d dgram, capacity int) {
	c.mu.Lock()
	defer c.mu.Unlock()
	if c.closed {
		return
	}
	if capacity <= 0 {
		capacity = 4096
	}
	if len(c.queue) >= capacity {
		simrt.CountFault("rcvbuf-overflow")
		return
	}
	c.queue = append(c.queue, d)
	c.broadcastLocked()
}

var errTimeout = &net.OpError{Op: "read", Net: "udp", Err: os.ErrDeadlineExceeded}

// waitReadable blocks until a datagram is queued, the socket is closed, an error is
// injected or the deadline passes. Returns with c.mu held and err == nil if readable.
func (c *UDPConn) waitReadable() error {
	for {
		c.mu.Lock()
		if c.readErr != nil {
			err := c.readErr
			c.readErr = nil
			c.mu.Unlock()
			return err
		}
		if c.closed {
			c.mu.Unlock()
			return &net.OpError{Op: "read", Net: "udp", Addr: c.local, Err: net.ErrClosed}
		}
		if len(c.queue) > 0 {
			return nil
		}
		var timerC <-chan time.Time
		if !c.deadline.IsZero() {
			d := time.Until(c.deadline)
			if d <= 0 {
				c.mu.Unlock()
				return errTimeout
			}
			timerC = time.NewTimer(d).C
		}
		wake := c.wake
		c.mu.Unlock()
		select {
		case <-wake:
		case <-timerC:
		}
	}
}

func (c *UDPConn) newCall() int {
	k.mu.Lock()
	k.calls++
	n := k.calls
	k.mu.Unlock()
	return n
}

func (c *UDPConn) record(d dgram, call int) {
	k.mu.Lock()
	st := uint64(0)
	if k.stamp != nil {
		st = k.stamp()
	}
	k.reads = append(k.reads, ReadRecord{Sock: c.key, From: d.from.String(), Payload: append([]byte(nil), d.payload...), Stamp: st, Call: call})
	k.mu.Unlock()
}

// ReadFrom implements net.PacketConn.
func (c *UDPConn) ReadFrom(b []byte) (int, net.Addr, error) {
	if err := c.waitReadable(); err != nil {
		return 0, nil, err
	}
	d := c.queue[0]
	c.queue = c.queue[1:]
	c.mu.Unlock()
	c.record(d, c.newCall())
	n := copy(b, d.payload)
	return n, d.from, nil
}

// ReadFromUDP mirrors *net.UDPConn.
func (c *UDPConn) ReadFromUDP(b []byte) (int, *net.UDPAddr, error) {
	n, a, err := c.ReadFrom(b)
	ua, _ := a.(*net.UDPAddr)
	return n, ua, err
}

// send routes one datagram through the fault plan to the destination socket.
func (c *UDPConn) send(payload []byte, to *net.UDPAddr) {
	k.mu.Lock()
	dst := k.socks[to.String()]
	f := k.faults
	k.mu.Unlock()
	if dst == nil {
		return // no such port: silently lost, like UDP
	}
	d := dgram{from: c.local, payload: append([]byte(nil), payload...)}
	if f.DropP > 0 && simrt.RandFloat64() < f.DropP {
		simrt.CountFault("datagram-drop")
		return
	}
	copies := 1
	if f.DupP > 0 && simrt.RandFloat64() < f.DupP {
		simrt.CountFault("datagram-duplicate")
		copies = 2
	}
	for i := 0; i < copies; i++ {
		if f.DelayP > 0 && f.MaxDelay > 0 && simrt.RandFloat64() < f.DelayP {
			simrt.CountFault("datagram-delay")
			delay := time.Duration(simrt.RandInt63n(int64(f.MaxDelay))) + 1
			dd := d
			time.AfterFunc(delay, func() { dst.deliver(dd, f.QueueCap) })
			continue
		}
		dst.deliver(d, f.QueueCap)
	}
}

// WriteTo implements net.PacketConn.
func (c *UDPConn) WriteTo(b []byte, addr net.Addr) (int, error) {
	c.mu.Lock()
	if c.closed {
		c.mu.Unlock()
		return 0, &net.OpError{Op: "write", Net: "udp", Addr: c.local, Err: net.ErrClosed}
	}
	if c.writeErr != nil {
		err := c.writeErr
		c.writeErr = nil
		c.mu.Unlock()
		simrt.CountFault("socket-write-error")
		return 0, err
	}
	c.mu.Unlock()
	ua, ok := addr.(*net.UDPAddr)
	if !ok {
		return 0, &net.OpError{Op: "write", Net: "udp", Err: errors.New("not a UDP address")}
	}
	if len(b) > MaxDatagram {
		simrt.CountFault("datagram-too-long")
		return 0, &net.OpError{Op: "write", Net: "udp", Addr: ua, Err: errors.New("sendto: message too long")}
	}
	c.send(b, ua)
	return len(b), nil
}

// WriteToUDP mirrors *net.UDPConn.
func (c *UDPConn) WriteToUDP(b []byte, addr *net.UDPAddr) (int, error) { return c.WriteTo(b, addr) }

// Close implements net.PacketConn.
func (c *UDPConn) Close() error {
	c.mu.Lock()
	first := !c.closed
	c.closed = true
	c.queue = nil
	cerr := c.closeErr
	c.broadcastLocked()
	c.mu.Unlock()
	k.mu.Lock()
	st := uint64(0)
	if k.stamp != nil {
		st = k.stamp()
	}
	k.closes = append(k.closes, CloseRecord{Sock: c.key, Stamp: st, First: first})
	if first {
		delete(k.socks, c.key)
	}
	k.mu.Unlock()
	if !first {
		return &net.OpError{Op: "close", Net: "udp", Addr: c.local, Err: net.ErrClosed}
	}
	return cerr
}

// LocalAddr implements net.PacketConn.
func (c *UDPConn) LocalAddr() net.Addr { return c.local }

// SetDeadline implements net.PacketConn.
func (c *UDPConn) SetDeadline(t time.Time) error { return c.SetReadDeadline(t) }

// SetReadDeadline implements net.PacketConn.
func (c *UDPConn) SetReadDeadline(t time.Time) error {
	c.mu.Lock()
	defer c.mu.Unlock()
	if c.closed {
		return &net.OpError{Op: "set", Net: "udp", Addr: c.local, Err: net.ErrClosed}
	}
	c.deadline = t
	c.broadcastLocked()
	return nil
}

// SetWriteDeadline implements net.PacketConn (writes never block).
func (c *UDPConn) SetWriteDeadline(time.Time) error { return nil }

// SetReadBuffer mirrors *net.UDPConn.
func (c *UDPConn) SetReadBuffer(int) error { return nil }

// SetWriteBuffer mirrors *net.UDPConn.
func (c *UDPConn) SetWriteBuffer(int) error { return nil }

// ---------------------------------------------------------------------------
// batch I/O (recvmmsg / sendmmsg semantics)

// BatchConn replaces ipv4.PacketConn / ipv6.PacketConn.
type BatchConn struct {
	c *UDPConn
}

// NewBatchPacketConn4 replaces ipv4.NewPacketConn.
func NewBatchPacketConn4(pc net.PacketConn) *BatchConn {
	if c, ok := pc.(*UDPConn); ok {
		return &BatchConn{c: c}
	}
	return nil
}

// NewBatchPacketConn6 replaces ipv6.NewPacketConn (the stub sockets are IPv4).
func NewBatchPacketConn6(net.PacketConn) *BatchConn { return nil }

// ReadBatch blocks until at least one datagram is available and returns as many as fit.
func (b *BatchConn) ReadBatch(ms []ipv4.Message, _ int) (int, error) {
	c := b.c
	if err := c.waitReadable(); err != nil {
		return 0, err
	}
	n := 0
	var taken []dgram
	for n < len(ms) && len(c.queue) > 0 {
		d := c.queue[0]
		c.queue = c.queue[1:]
		taken = append(taken, d)
		m := &ms[n]
		m.N = copy(m.Buffers[0], d.payload)
		m.Addr = d.from
		n++
	}
	c.mu.Unlock()
	call := c.newCall()
	for _, d := range taken {
		c.record(d, call)
	}
	if n > 1 {
		simrt.CountProbe("batch-read>1")
	}
	return n, nil
}

// WriteBatch sends the messages (all of them: no short batch).
func (b *BatchConn) WriteBatch(ms []ipv4.Message, _ int) (int, error) {
	for i := range ms {
		var p []byte
		for _, buf := range ms[i].Buffers {
			p = append(p, buf...)
		}
		if _, err := b.c.WriteTo(p, ms[i].Addr); err != nil {
			return i, err
		}
	}
	return len(ms), nil
}

// Close closes the underlying socket.
func (b *BatchConn) Close() error { return b.c.Close() }
