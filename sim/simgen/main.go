// simgen instruments a scratch copy of pion/transport for deterministic simulation:
// it rewrites every scheduling-relevant construct (go, locks, channel operations,
// select, sync.Once, WaitGroup.Wait, time, math/rand, the UDP socket) into calls of
// the simrt/simnet runtime. See /verif/DESIGN.md §2.2.
//
// usage: simgen -root <scratch repo copy> pkg [pkg...]
//
// Exit status 0 on success, 2 on any construct it has no rule for (never silently
// un-instrumented).
package main

import (
	"bytes"
	"flag"
	"fmt"
	"go/ast"
	"go/build"
	"go/format"
	"go/importer"
	"go/parser"
	"go/token"
	"go/types"
	"os"
	"path/filepath"
	"sort"
	"strconv"
	"strings"

	"golang.org/x/tools/go/ast/astutil"
)

const (
	modPath   = "github.com/pion/transport/v3"
	simrtPath = modPath + "/zzverif/simrt"
	simnetPth = modPath + "/zzverif/simnet"
)

var problems []string

func problem(fset *token.FileSet, pos token.Pos, format string, args ...interface{}) {
	problems = append(problems, fmt.Sprintf("%s: %s", fset.Position(pos), fmt.Sprintf(format, args...)))
}

func main() {
	root := flag.String("root", "", "root of the scratch copy of the repository")
	verbose := flag.Bool("v", false, "verbose")
	flag.Parse()
	if *root == "" || flag.NArg() == 0 {
		fmt.Fprintln(os.Stderr, "usage: simgen -root DIR pkg...")
		os.Exit(2)
	}
	abs, err := filepath.Abs(*root)
	if err != nil {
		fatal(err)
	}
	if err := os.Chdir(abs); err != nil {
		fatal(err)
	}
	stats := map[string]int{}
	fset := token.NewFileSet()
	imp := importer.ForCompiler(fset, "source", nil)
	var loaded []*loadedPkg
	for _, pkg := range flag.Args() {
		lp, err := load(fset, imp, abs, pkg)
		if err != nil {
			fatal(fmt.Errorf("%s: %w", pkg, err))
		}
		loaded = append(loaded, lp)
	}
	for _, lp := range loaded {
		if err := instrument(lp, stats, *verbose); err != nil {
			fatal(fmt.Errorf("%s: %w", lp.pkg, err))
		}
	}
	if len(problems) > 0 {
		for _, p := range problems {
			fmt.Fprintln(os.Stderr, "simgen: no rule:", p)
		}
		os.Exit(2)
	}
	keys := make([]string, 0, len(stats))
	for k := range stats {
		keys = append(keys, k)
	}
	sort.Strings(keys)
	var sb strings.Builder
	for _, k := range keys {
		fmt.Fprintf(&sb, "%s=%d ", k, stats[k])
	}
	fmt.Println("simgen:", sb.String())
}

func fatal(err error) {
	fmt.Fprintln(os.Stderr, "simgen:", err)
	os.Exit(2)
}

type rewriter struct {
	fset     *token.FileSet
	info     *types.Info
	pkgDir   string // e.g. "packetio"
	file     *ast.File
	fname    string
	stats    map[string]int
	needRT   bool
	needNet  bool
	skipRecv map[*ast.UnaryExpr]bool
	inComm   map[ast.Stmt]bool
	genBlock map[*ast.BlockStmt]*genSel
	tmpN     int
	chanRange map[*ast.RangeStmt]bool
}

type genSel struct {
	sw    *ast.SwitchStmt
	index int // index of the switch inside the block's list
}

type loadedPkg struct {
	pkg, dir string
	fset     *token.FileSet
	files    []*ast.File
	names    []string
	info     *types.Info
}

func load(fset *token.FileSet, imp types.Importer, root, pkg string) (*loadedPkg, error) {
	dir := filepath.Join(root, pkg)
	bp, err := build.Default.ImportDir(dir, 0)
	if err != nil {
		return nil, err
	}
	var files []*ast.File
	var names []string
	for _, f := range bp.GoFiles {
		if strings.HasPrefix(f, "zz_verif_") {
			// adaptors are parsed for type-checking but never rewritten
		}
		af, err := parser.ParseFile(fset, filepath.Join(dir, f), nil, parser.SkipObjectResolution)
		if err != nil {
			return nil, err
		}
		files = append(files, af)
		names = append(names, f)
	}
	info := &types.Info{
		Types:      map[ast.Expr]types.TypeAndValue{},
		Uses:       map[*ast.Ident]types.Object{},
		Defs:       map[*ast.Ident]types.Object{},
		Selections: map[*ast.SelectorExpr]*types.Selection{},
	}
	var terrs []error
	conf := types.Config{
		Importer: imp,
		Error:    func(err error) { terrs = append(terrs, err) },
	}
	importPath := modPath + "/" + pkg
	if pkg == "." {
		importPath = modPath
	}
	_, _ = conf.Check(importPath, fset, files, info)
	if len(terrs) > 0 {
		return nil, fmt.Errorf("type check: %v (and %d more)", terrs[0], len(terrs)-1)
	}
	return &loadedPkg{pkg: pkg, dir: dir, fset: fset, files: files, names: names, info: info}, nil
}

func instrument(lp *loadedPkg, stats map[string]int, verbose bool) error {
	pkg, dir, fset, files, names, info := lp.pkg, lp.dir, lp.fset, lp.files, lp.names, lp.info
	for i, af := range files {
		if strings.HasPrefix(names[i], "zz_verif_") {
			continue
		}
		rw := &rewriter{fset: fset, info: info, pkgDir: pkg, file: af, fname: names[i], stats: stats,
			skipRecv: map[*ast.UnaryExpr]bool{}, inComm: map[ast.Stmt]bool{}, genBlock: map[*ast.BlockStmt]*genSel{}, chanRange: map[*ast.RangeStmt]bool{}}
		src, err := os.ReadFile(filepath.Join(dir, names[i]))
		if err != nil {
			return err
		}
		changed := rw.run()
		if !changed {
			continue
		}
		var buf bytes.Buffer
		for _, line := range strings.Split(string(src), "\n") {
			if strings.HasPrefix(line, "//go:build ") {
				buf.WriteString(line + "\n\n")
			}
			if strings.HasPrefix(line, "package ") {
				break
			}
		}
		buf.WriteString("// Code rewritten by simgen for deterministic simulation. DO NOT EDIT.\n\n")
		if err := format.Node(&buf, fset, af); err != nil {
			return fmt.Errorf("%s: print: %w", names[i], err)
		}
		if err := os.WriteFile(filepath.Join(dir, names[i]), buf.Bytes(), 0o644); err != nil {
			return err
		}
		if verbose {
			fmt.Fprintf(os.Stderr, "simgen: rewrote %s/%s\n", pkg, names[i])
		}
	}
	return nil
}

func (rw *rewriter) site(pos token.Pos) *ast.BasicLit {
	p := rw.fset.Position(pos)
	return &ast.BasicLit{Kind: token.STRING, Value: strconv.Quote(fmt.Sprintf("%s/%s:%d", rw.pkgDir, filepath.Base(p.Filename), p.Line))}
}

func rt(name string) ast.Expr {
	return &ast.SelectorExpr{X: ast.NewIdent("simrt"), Sel: ast.NewIdent(name)}
}

func (rw *rewriter) call(name string, args ...ast.Expr) *ast.CallExpr {
	rw.needRT = true
	rw.stats[name]++
	return &ast.CallExpr{Fun: rt(name), Args: args}
}

// pkgFunc reports the package path and name if e denotes a package-level function or
// type of an imported package (pkg.Name).
func (rw *rewriter) pkgObj(e ast.Expr) (path, name string, obj types.Object) {
	sel, ok := e.(*ast.SelectorExpr)
	if !ok {
		return
	}
	id, ok := sel.X.(*ast.Ident)
	if !ok {
		return
	}
	pn, ok := rw.info.Uses[id].(*types.PkgName)
	if !ok {
		return
	}
	return pn.Imported().Path(), sel.Sel.Name, rw.info.Uses[sel.Sel]
}

// syncRecv: for a call X.M() where M is a method of a sync type, returns the type
// name ("Mutex", ...), whether X is already a pointer, and X.
func (rw *rewriter) syncMethod(call *ast.CallExpr) (typ, method string, recv ast.Expr, isPtr, ok bool) {
	sel, isSel := call.Fun.(*ast.SelectorExpr)
	if !isSel {
		return
	}
	s := rw.info.Selections[sel]
	if s == nil || s.Kind() != types.MethodVal {
		return
	}
	fn, isFn := s.Obj().(*types.Func)
	if !isFn || fn.Pkg() == nil || fn.Pkg().Path() != "sync" {
		return
	}
	sig := fn.Type().(*types.Signature)
	if sig.Recv() == nil {
		return
	}
	rt := sig.Recv().Type()
	if p, isP := rt.(*types.Pointer); isP {
		rt = p.Elem()
	}
	named, isN := rt.(*types.Named)
	if !isN {
		return
	}
	xt := rw.info.TypeOf(sel.X)
	x := sel.X
	if idx := s.Index(); len(idx) > 1 {
		// method promoted through embedded fields: spell the path out (x.Mutex.Lock())
		t := xt
		for _, i := range idx[:len(idx)-1] {
			if p, isP := t.Underlying().(*types.Pointer); isP {
				t = p.Elem()
			}
			st, isS := t.Underlying().(*types.Struct)
			if !isS || i >= st.NumFields() {
				problem(rw.fset, call.Pos(), "sync method %s promoted through embedding (unexpected shape)", fn.Name())
				return
			}
			f := st.Field(i)
			x = &ast.SelectorExpr{X: x, Sel: ast.NewIdent(f.Name())}
			t = f.Type()
		}
		xt = t
	}
	_, isPtr = xt.Underlying().(*types.Pointer)
	return named.Obj().Name(), fn.Name(), x, isPtr, true
}

// calleeFunc returns the function or method a call invokes (nil for builtins, conversions,
// function values).
func (rw *rewriter) calleeFunc(call *ast.CallExpr) *types.Func {
	switch f := call.Fun.(type) {
	case *ast.Ident:
		fn, _ := rw.info.Uses[f].(*types.Func)
		return fn
	case *ast.SelectorExpr:
		if sel := rw.info.Selections[f]; sel != nil {
			fn, _ := sel.Obj().(*types.Func)
			return fn
		}
		fn, _ := rw.info.Uses[f.Sel].(*types.Func)
		return fn
	}
	return nil
}

func addr(x ast.Expr, isPtr bool) ast.Expr {
	if isPtr {
		return x
	}
	return &ast.UnaryExpr{Op: token.AND, X: x}
}

func (rw *rewriter) isChanRecv(e ast.Expr) (*ast.UnaryExpr, bool) {
	for {
		p, ok := e.(*ast.ParenExpr)
		if !ok {
			break
		}
		e = p.X
	}
	u, ok := e.(*ast.UnaryExpr)
	if ok && u.Op == token.ARROW {
		return u, true
	}
	return nil, false
}

func (rw *rewriter) run() bool {
	before := len(rw.stats)
	total := 0
	for _, v := range rw.stats {
		total += v
	}
	astutil.Apply(rw.file, rw.pre, rw.post)
	after := 0
	for _, v := range rw.stats {
		after += v
	}
	_ = before
	if after == total {
		return false
	}
	if rw.needRT && !rw.imports(simrtPath) {
		astutil.AddNamedImport(rw.fset, rw.file, "simrt", simrtPath)
	}
	if rw.needNet {
		astutil.AddNamedImport(rw.fset, rw.file, "simnet", simnetPth)
	}
	rw.pruneImports()
	return true
}

func (rw *rewriter) imports(path string) bool {
	for _, imp := range rw.file.Imports {
		if p, _ := strconv.Unquote(imp.Path.Value); p == path && (imp.Name == nil || imp.Name.Name == "simrt") {
			return true
		}
	}
	return false
}

// pruneImports blanks imports that the rewrite left unused.
func (rw *rewriter) pruneImports() {
	used := map[string]bool{}
	ast.Inspect(rw.file, func(n ast.Node) bool {
		if sel, ok := n.(*ast.SelectorExpr); ok {
			if id, ok := sel.X.(*ast.Ident); ok {
				if pn, ok := rw.info.Uses[id].(*types.PkgName); ok {
					used[pn.Imported().Path()] = true
				}
			}
		}
		return true
	})
	for _, imp := range rw.file.Imports {
		path, _ := strconv.Unquote(imp.Path.Value)
		if path == simrtPath || path == simnetPth {
			continue
		}
		if imp.Name != nil && (imp.Name.Name == "_" || imp.Name.Name == ".") {
			continue
		}
		if !used[path] {
			imp.Name = ast.NewIdent("_")
		}
	}
}

func (rw *rewriter) pre(c *astutil.Cursor) bool {
	switch n := c.Node().(type) {
	case *ast.CommClause:
		if n.Comm != nil {
			rw.inComm[n.Comm] = true
			switch cs := n.Comm.(type) {
			case *ast.ExprStmt:
				if u, ok := rw.isChanRecv(cs.X); ok {
					rw.skipRecv[u] = true
				}
			case *ast.AssignStmt:
				if len(cs.Rhs) == 1 {
					if u, ok := rw.isChanRecv(cs.Rhs[0]); ok {
						rw.skipRecv[u] = true
					}
				}
			}
		}
	case *ast.RangeStmt:
		if t := rw.info.TypeOf(n.X); t != nil {
			if _, ok := t.Underlying().(*types.Chan); ok {
				rw.chanRange[n] = true
			}
		}
	}
	return true
}

func (rw *rewriter) post(c *astutil.Cursor) bool {
	switch n := c.Node().(type) {
	case *ast.CallExpr:
		rw.postCall(c, n)
	case *ast.UnaryExpr:
		if n.Op == token.ARROW && !rw.skipRecv[n] {
			// v, ok := <-ch is handled at the assignment
			if as, ok := c.Parent().(*ast.AssignStmt); ok && len(as.Lhs) == 2 && len(as.Rhs) == 1 {
				c.Replace(rw.call("Recv2", rw.site(n.Pos()), n.X))
			} else if vs, ok := c.Parent().(*ast.ValueSpec); ok && len(vs.Names) == 2 && len(vs.Values) == 1 {
				c.Replace(rw.call("Recv2", rw.site(n.Pos()), n.X))
			} else {
				c.Replace(rw.call("Recv", rw.site(n.Pos()), n.X))
			}
		}
	case *ast.SendStmt:
		if rw.inComm[n] {
			return true
		}
		if c.Index() < 0 {
			if _, ok := c.Parent().(*ast.LabeledStmt); !ok {
				problem(rw.fset, n.Pos(), "send statement outside a statement list")
				return true
			}
		}
		c.Replace(&ast.ExprStmt{X: rw.call("Send", rw.site(n.Pos()), n.Chan, n.Value)})
	case *ast.RangeStmt:
		if rw.chanRange[n] {
			rw.postChanRange(c, n)
		}
	case *ast.GoStmt:
		rw.postGo(c, n)
	case *ast.SelectStmt:
		rw.postSelect(c, n)
	case *ast.LabeledStmt:
		if blk, ok := n.Stmt.(*ast.BlockStmt); ok {
			if g := rw.genBlock[blk]; g != nil {
				blk.List[g.index] = &ast.LabeledStmt{Label: n.Label, Stmt: g.sw}
				c.Replace(blk)
			}
		}
	case *ast.SelectorExpr:
		// a method value of a sync type (unlock := mu.Unlock): wrap the rewritten call in a closure
		if sl := rw.info.Selections[n]; sl != nil && sl.Kind() == types.MethodVal {
			if fn, isFn := sl.Obj().(*types.Func); isFn && fn.Pkg() != nil && fn.Pkg().Path() == "sync" {
				if pc, isCall := c.Parent().(*ast.CallExpr); !isCall || pc.Fun != ast.Expr(n) {
					switch fn.Name() {
					case "Lock", "Unlock", "RLock", "RUnlock", "Wait", "Signal", "Broadcast":
						call := &ast.CallExpr{Fun: n}
						lit := &ast.FuncLit{Type: &ast.FuncType{Params: &ast.FieldList{}}, Body: &ast.BlockStmt{List: []ast.Stmt{&ast.ExprStmt{X: call}}}}
						rw.info.Selections[n] = sl
						c.Replace(lit)
						// rewrite the inner call now (the traversal does not descend into the replacement)
						astutil.Apply(lit.Body, nil, func(ic *astutil.Cursor) bool {
							if ce, ok := ic.Node().(*ast.CallExpr); ok && ce == call {
								rw.postCall(ic, ce)
							}
							return true
						})
						rw.stats["method-value"]++
						return true
					case "Done", "Add", "Get", "Put", "Load", "Store", "Delete", "Range", "LoadOrStore", "LoadAndDelete":
					default:
						problem(rw.fset, n.Pos(), "method value sync.%s", fn.Name())
					}
				}
			}
		}
		path, name, obj := rw.pkgObj(n)
		if path == "time" {
			if _, isType := obj.(*types.TypeName); isType && (name == "Timer" || name == "Ticker") {
				rw.needRT = true
				rw.stats["type."+name]++
				c.Replace(rt(name))
			}
		}
		if path == "math/rand" {
			if _, isType := obj.(*types.TypeName); isType && (name == "Rand" || name == "Source") {
				rw.needRT = true
				rw.stats["type.rand."+name]++
				c.Replace(rt(name))
			}
		}
	}
	return true
}

var timeFuncs = map[string]bool{"Now": true, "Since": true, "Until": true, "Sleep": true, "After": true,
	"NewTimer": true, "AfterFunc": true, "NewTicker": true}

var randFuncs = map[string]bool{"Seed": true, "Intn": true, "Int63n": true, "Int31n": true, "Int63": true,
	"Int": true, "Uint32": true, "Uint64": true, "Float64": true, "Read": true, "New": true, "NewSource": true,
	"Int31": true, "Float32": true, "Perm": true, "Shuffle": true}

func (rw *rewriter) postCall(c *astutil.Cursor, n *ast.CallExpr) {
	// builtin close
	if id, ok := n.Fun.(*ast.Ident); ok && id.Name == "close" {
		if _, isB := rw.info.Uses[id].(*types.Builtin); isB && len(n.Args) == 1 {
			c.Replace(rw.call("Close", rw.site(n.Pos()), n.Args[0]))
			return
		}
	}
	// package functions
	if path, name, obj := rw.pkgObj(n.Fun); path != "" {
		if _, isFn := obj.(*types.Func); isFn {
			switch {
			case path == "time" && timeFuncs[name]:
				args := append([]ast.Expr{rw.site(n.Pos())}, n.Args...)
				c.Replace(rw.call(name, args...))
				return
			case path == "time" && (name == "Tick"):
				problem(rw.fset, n.Pos(), "time.%s", name)
			case path == "context" && name == "AfterFunc":
				args := append([]ast.Expr{rw.site(n.Pos())}, n.Args...)
				c.Replace(rw.call("ContextAfterFunc", args...))
				return
			case path == "math/rand" && randFuncs[name]:
				c.Replace(rw.call("Rand"+name, n.Args...))
				return
			case path == "math/rand":
				problem(rw.fset, n.Pos(), "math/rand.%s", name)
			case path == "net" && name == "ListenUDP" && rw.pkgDir == "udp":
				rw.needNet = true
				rw.stats["simnet.ListenUDP"]++
				c.Replace(&ast.CallExpr{Fun: &ast.SelectorExpr{X: ast.NewIdent("simnet"), Sel: ast.NewIdent("ListenUDP")}, Args: n.Args})
				return
			case (path == "golang.org/x/net/ipv4" || path == "golang.org/x/net/ipv6") && name == "NewPacketConn" && rw.pkgDir == "udp":
				rw.needNet = true
				rw.stats["simnet.NewBatchPacketConn"]++
				fn := "NewBatchPacketConn4"
				if strings.HasSuffix(path, "ipv6") {
					fn = "NewBatchPacketConn6"
				}
				c.Replace(&ast.CallExpr{Fun: &ast.SelectorExpr{X: ast.NewIdent("simnet"), Sel: ast.NewIdent(fn)}, Args: n.Args})
				return
			}
		}
	}
	// sync/atomic functions and methods: a yield right after the operation, so that a
	// check-then-act sequence built from atomics (Load ... Add) can be interleaved
	if fn := rw.calleeFunc(n); fn != nil && fn.Pkg() != nil && fn.Pkg().Path() == "sync/atomic" {
		if sig, isSig := fn.Type().(*types.Signature); isSig {
			rw.needRT = true
			rw.stats["atomic."+fn.Name()]++
			site := rw.site(n.Pos())
			inner := &ast.CallExpr{Fun: n.Fun, Args: n.Args, Ellipsis: n.Ellipsis}
			if sig.Results().Len() == 0 {
				lit := &ast.FuncLit{Type: &ast.FuncType{Params: &ast.FieldList{}}, Body: &ast.BlockStmt{List: []ast.Stmt{&ast.ExprStmt{X: inner}}}}
				c.Replace(rw.call("AtomicVoid", site, lit))
			} else if sig.Results().Len() == 1 {
				c.Replace(rw.call("AtomicAfter", site, inner))
			}
			return
		}
	}
	// sync methods
	typ, method, recv, isPtr, ok := rw.syncMethod(n)
	if !ok {
		return
	}
	site := rw.site(n.Pos())
	switch typ + "." + method {
	case "Mutex.Lock":
		c.Replace(rw.call("Lock", site, addr(recv, isPtr)))
	case "Mutex.Unlock":
		c.Replace(rw.call("Unlock", addr(recv, isPtr)))
	case "Mutex.TryLock":
		c.Replace(rw.call("TryLock", site, addr(recv, isPtr)))
	case "RWMutex.TryLock":
		c.Replace(rw.call("RWTryLock", site, addr(recv, isPtr)))
	case "RWMutex.TryRLock":
		c.Replace(rw.call("RWTryRLock", site, addr(recv, isPtr)))
	case "Cond.Wait":
		c.Replace(rw.call("CondWait", site, addr(recv, isPtr)))
	case "Cond.Signal":
		c.Replace(rw.call("CondSignal", site, addr(recv, isPtr)))
	case "Cond.Broadcast":
		c.Replace(rw.call("CondBroadcast", site, addr(recv, isPtr)))
	case "Pool.Get":
		// a per-run, deterministic stand-in (last in, first out): nothing pooled in one run is
		// handed out in the next, and which object a Get receives does not depend on the
		// real scheduler (pass-through under the race detector, where the pool's own
		// synchronisation matters)
		c.Replace(rw.call("PoolGet", addr(recv, isPtr)))
	case "Pool.Put":
		if len(n.Args) == 1 {
			c.Replace(rw.call("PoolPut", addr(recv, isPtr), n.Args[0]))
		}
	case "RWMutex.Lock":
		c.Replace(rw.call("RWLock", site, addr(recv, isPtr)))
	case "RWMutex.Unlock":
		c.Replace(rw.call("RWUnlock", addr(recv, isPtr)))
	case "RWMutex.RLock":
		c.Replace(rw.call("RWRLock", site, addr(recv, isPtr)))
	case "RWMutex.RUnlock":
		c.Replace(rw.call("RWRUnlock", addr(recv, isPtr)))
	case "Once.Do":
		c.Replace(rw.call("OnceDo", site, addr(recv, isPtr), n.Args[0]))
	case "WaitGroup.Wait":
		c.Replace(rw.call("WaitGroupWait", site, addr(recv, isPtr)))
	case "WaitGroup.Add", "WaitGroup.Done", "WaitGroup.Go":
		if method == "Go" {
			problem(rw.fset, n.Pos(), "WaitGroup.Go")
		}
	case "Map.Load", "Map.Store", "Map.Delete", "Map.Range", "Map.LoadOrStore", "Map.LoadAndDelete":
		// sync.Map operations are atomic and do not block; only vnet/udpproxy uses them
	default:
		problem(rw.fset, n.Pos(), "sync.%s.%s", typ, method)
	}
}

func (rw *rewriter) tmp(prefix string) string {
	rw.tmpN++
	return fmt.Sprintf("_sim%s%d", prefix, rw.tmpN)
}

func (rw *rewriter) postGo(c *astutil.Cursor, n *ast.GoStmt) {
	site := rw.site(n.Pos())
	call := n.Call
	var pre []ast.Stmt
	// evaluate arguments now
	newArgs := make([]ast.Expr, len(call.Args))
	for i, a := range call.Args {
		switch a.(type) {
		case *ast.BasicLit:
			newArgs[i] = a
			continue
		}
		name := rw.tmp("a")
		pre = append(pre, &ast.AssignStmt{Lhs: []ast.Expr{ast.NewIdent(name)}, Tok: token.DEFINE, Rhs: []ast.Expr{a}})
		newArgs[i] = ast.NewIdent(name)
	}
	var fn ast.Expr
	if lit, ok := call.Fun.(*ast.FuncLit); ok && len(call.Args) == 0 {
		fn = lit
	} else {
		fun := call.Fun
		// evaluate a method receiver now
		if sel, ok := fun.(*ast.SelectorExpr); ok {
			if s := rw.info.Selections[sel]; s != nil && s.Kind() == types.MethodVal {
				if _, simple := sel.X.(*ast.Ident); !simple {
					name := rw.tmp("r")
					pre = append(pre, &ast.AssignStmt{Lhs: []ast.Expr{ast.NewIdent(name)}, Tok: token.DEFINE, Rhs: []ast.Expr{sel.X}})
					fun = &ast.SelectorExpr{X: ast.NewIdent(name), Sel: sel.Sel}
				}
			}
		}
		inner := &ast.CallExpr{Fun: fun, Args: newArgs, Ellipsis: call.Ellipsis}
		fn = &ast.FuncLit{Type: &ast.FuncType{Params: &ast.FieldList{}}, Body: &ast.BlockStmt{List: []ast.Stmt{&ast.ExprStmt{X: inner}}}}
	}
	goCall := &ast.ExprStmt{X: rw.call("Go", site, fn)}
	if len(pre) == 0 {
		c.Replace(goCall)
		return
	}
	c.Replace(&ast.BlockStmt{List: append(pre, goCall)})
}

// postChanRange rewrites "for v := range ch { B }" into
// "for { v, ok := simrt.Recv2(site, ch); if !ok { break }; B }".
func (rw *rewriter) postChanRange(c *astutil.Cursor, n *ast.RangeStmt) {
	if n.Value != nil {
		problem(rw.fset, n.Pos(), "range over channel with two variables")
		return
	}
	okName := rw.tmp("ok")
	var lhs ast.Expr = ident("_")
	tok := token.DEFINE
	if n.Key != nil {
		lhs = n.Key
		tok = n.Tok
	}
	recv := &ast.AssignStmt{Lhs: []ast.Expr{lhs, ident(okName)}, Tok: token.DEFINE, Rhs: []ast.Expr{rw.call("Recv2", rw.site(n.Pos()), n.X)}}
	var pre []ast.Stmt
	if tok == token.ASSIGN {
		// assignment to an existing variable: receive into a temporary first
		tmp := rw.tmp("v")
		recv.Lhs[0] = ident(tmp)
		pre = append(pre, recv, assign(token.ASSIGN, []ast.Expr{n.Key}, ident(tmp)))
	} else {
		pre = append(pre, recv)
	}
	pre = append(pre, &ast.IfStmt{Cond: &ast.UnaryExpr{Op: token.NOT, X: ident(okName)},
		Body: &ast.BlockStmt{List: []ast.Stmt{&ast.BranchStmt{Tok: token.BREAK}}}})
	body := &ast.BlockStmt{List: append(pre, n.Body.List...)}
	c.Replace(&ast.ForStmt{Body: body})
}

func ident(s string) *ast.Ident { return ast.NewIdent(s) }

func assign(tok token.Token, lhs []ast.Expr, rhs ...ast.Expr) *ast.AssignStmt {
	return &ast.AssignStmt{Lhs: lhs, Tok: tok, Rhs: rhs}
}

func intLit(i int) *ast.BasicLit { return &ast.BasicLit{Kind: token.INT, Value: strconv.Itoa(i)} }

// postSelect rewrites a select statement (see DESIGN.md §2.2). Case bodies have
// already been rewritten.
func (rw *rewriter) postSelect(c *astutil.Cursor, n *ast.SelectStmt) {
	if c.Index() < 0 {
		if _, ok := c.Parent().(*ast.LabeledStmt); !ok {
			problem(rw.fset, n.Pos(), "select outside a statement list")
			return
		}
	}
	rw.needRT = true
	rw.stats["select"]++
	site := rw.site(n.Pos())
	type caseInfo struct {
		send      bool
		ch, val   string // variable names
		r, ok     string
		bind      ast.Stmt // statement binding the received value in the body
		body      []ast.Stmt
		isDefault bool
	}
	var cases []*caseInfo
	var defaultCase *caseInfo
	var setup []ast.Stmt
	for _, cl := range n.Body.List {
		cc := cl.(*ast.CommClause)
		ci := &caseInfo{body: cc.Body}
		if cc.Comm == nil {
			ci.isDefault = true
			defaultCase = ci
			continue
		}
		k := len(cases)
		ci.ch = fmt.Sprintf("_simc%d", k)
		switch cs := cc.Comm.(type) {
		case *ast.SendStmt:
			ci.send = true
			ci.val = fmt.Sprintf("_simv%d", k)
			setup = append(setup,
				assign(token.DEFINE, []ast.Expr{ident(ci.ch)}, cs.Chan),
				assign(token.DEFINE, []ast.Expr{ident(ci.val)}, &ast.CallExpr{Fun: rt("SendVal"), Args: []ast.Expr{ident(ci.ch), cs.Value}}))
		case *ast.ExprStmt:
			u, ok := rw.isChanRecv(cs.X)
			if !ok {
				problem(rw.fset, cs.Pos(), "select case is not a receive")
				return
			}
			ci.r, ci.ok = fmt.Sprintf("_simr%d", k), fmt.Sprintf("_simok%d", k)
			setup = append(setup, assign(token.DEFINE, []ast.Expr{ident(ci.ch)}, u.X))
		case *ast.AssignStmt:
			u, ok := rw.isChanRecv(cs.Rhs[0])
			if !ok {
				problem(rw.fset, cs.Pos(), "select case is not a receive")
				return
			}
			ci.r, ci.ok = fmt.Sprintf("_simr%d", k), fmt.Sprintf("_simok%d", k)
			setup = append(setup, assign(token.DEFINE, []ast.Expr{ident(ci.ch)}, u.X))
			rhs := []ast.Expr{ident(ci.r)}
			if len(cs.Lhs) == 2 {
				rhs = append(rhs, ident(ci.ok))
			}
			tok := cs.Tok
			if tok == token.DEFINE {
				allBlank := true
				for _, l := range cs.Lhs {
					if id, isID := l.(*ast.Ident); !isID || id.Name != "_" {
						allBlank = false
					}
				}
				if allBlank {
					tok = token.ASSIGN
				}
			}
			ci.bind = &ast.AssignStmt{Lhs: cs.Lhs, Tok: tok, Rhs: rhs}
		default:
			problem(rw.fset, cc.Pos(), "unknown select comm")
			return
		}
		cases = append(cases, ci)
	}
	// declarations for receive results
	for _, ci := range cases {
		if ci.send {
			continue
		}
		setup = append(setup,
			&ast.DeclStmt{Decl: &ast.GenDecl{Tok: token.VAR, Specs: []ast.Spec{&ast.ValueSpec{
				Names: []*ast.Ident{ident(ci.r)}, Values: []ast.Expr{&ast.CallExpr{Fun: rt("RecvZero"), Args: []ast.Expr{ident(ci.ch)}}}}}}},
			&ast.DeclStmt{Decl: &ast.GenDecl{Tok: token.VAR, Specs: []ast.Spec{&ast.ValueSpec{
				Names: []*ast.Ident{ident(ci.ok)}, Type: ident("bool")}}}},
			assign(token.ASSIGN, []ast.Expr{ident("_"), ident("_")}, ident(ci.r), ident(ci.ok)))
	}
	comm := func(k int, ci *caseInfo) ast.Stmt {
		if ci.send {
			return &ast.SendStmt{Chan: ident(ci.ch), Value: ident(ci.val)}
		}
		return assign(token.ASSIGN, []ast.Expr{ident(ci.r), ident(ci.ok)}, &ast.UnaryExpr{Op: token.ARROW, X: ident(ci.ch)})
	}
	setSel := func(k int) ast.Stmt { return assign(token.ASSIGN, []ast.Expr{ident("_simsel")}, intLit(k)) }
	setup = append(setup, assign(token.DEFINE, []ast.Expr{ident("_simsel")}, &ast.UnaryExpr{Op: token.SUB, X: intLit(1)}))
	if len(cases) > 0 {
		// polling loop
		var pollCases []ast.Stmt
		for k, ci := range cases {
			poll := &ast.SelectStmt{Body: &ast.BlockStmt{List: []ast.Stmt{
				&ast.CommClause{Comm: comm(k, ci), Body: []ast.Stmt{setSel(k)}},
				&ast.CommClause{},
			}}}
			pollCases = append(pollCases, &ast.CaseClause{List: []ast.Expr{intLit(k)}, Body: []ast.Stmt{poll}})
		}
		loop := &ast.RangeStmt{
			Key: ident("_"), Value: ident("_simi"), Tok: token.DEFINE,
			X: &ast.CallExpr{Fun: rt("SelectOrder"), Args: []ast.Expr{site, intLit(len(cases))}},
			Body: &ast.BlockStmt{List: []ast.Stmt{
				&ast.SwitchStmt{Tag: ident("_simi"), Body: &ast.BlockStmt{List: pollCases}},
				&ast.IfStmt{Cond: &ast.BinaryExpr{X: ident("_simsel"), Op: token.GEQ, Y: intLit(0)},
					Body: &ast.BlockStmt{List: []ast.Stmt{&ast.BranchStmt{Tok: token.BREAK}}}},
			}},
		}
		setup = append(setup, loop)
	} else {
		// select {} or select { default: }
		setup = append(setup, &ast.ExprStmt{X: &ast.CallExpr{Fun: rt("Yield"), Args: []ast.Expr{site}}})
	}
	if defaultCase == nil {
		var blockCases []ast.Stmt
		for k, ci := range cases {
			blockCases = append(blockCases, &ast.CommClause{Comm: comm(k, ci), Body: []ast.Stmt{setSel(k)}})
		}
		setup = append(setup, &ast.IfStmt{
			Cond: &ast.BinaryExpr{X: ident("_simsel"), Op: token.LSS, Y: intLit(0)},
			Body: &ast.BlockStmt{List: []ast.Stmt{
				&ast.ExprStmt{X: &ast.CallExpr{Fun: rt("BlockBegin"), Args: []ast.Expr{site}}},
				&ast.SelectStmt{Body: &ast.BlockStmt{List: blockCases}},
				&ast.ExprStmt{X: &ast.CallExpr{Fun: rt("BlockEnd"), Args: []ast.Expr{site}}},
			}},
		})
	}
	// dispatch
	var swCases []ast.Stmt
	for k, ci := range cases {
		body := ci.body
		if ci.bind != nil {
			body = append([]ast.Stmt{ci.bind}, body...)
		}
		swCases = append(swCases, &ast.CaseClause{List: []ast.Expr{intLit(k)}, Body: body})
	}
	if defaultCase != nil {
		swCases = append(swCases, &ast.CaseClause{Body: defaultCase.body})
	} else {
		swCases = append(swCases, &ast.CaseClause{Body: []ast.Stmt{&ast.ExprStmt{X: &ast.CallExpr{Fun: ident("panic"),
			Args: []ast.Expr{&ast.BasicLit{Kind: token.STRING, Value: strconv.Quote("simrt: unreachable select case")}}}}}})
	}
	sw := &ast.SwitchStmt{Tag: ident("_simsel"), Body: &ast.BlockStmt{List: swCases}}
	setup = append(setup, sw)
	blk := &ast.BlockStmt{List: setup}
	rw.genBlock[blk] = &genSel{sw: sw, index: len(setup) - 1}
	c.Replace(blk)
}
