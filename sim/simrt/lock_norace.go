//go:build !race

package simrt

import "sync"

func ilock(m *sync.Mutex)   { m.Lock() }
func iunlock(m *sync.Mutex) { m.Unlock() }
func raceOff()              {}
func raceOn()               {}

// RaceEnabled reports whether the binary was built with the race detector.
const RaceEnabled = false
