package simrt

import (
	"sync"
	"time"
)

// The virtual clock is the bubble's fake clock plus an offset that grows by a jitter
// at every instrumented clock read ("execution takes time"). Timers run on the bubble
// clock, so relative to the virtual clock they are never early.

//go:norace
func (s *Sim) vnowLocked() time.Time { return time.Now().Add(s.offset) }

//go:norace
func (s *Sim) jitterLocked() time.Duration {
	switch s.cfg.Jitter {
	case "small":
		return time.Duration(1 + s.jitRng.intn(10000))
	case "mixed":
		r := s.jitRng.intn(100)
		switch {
		case r < 70:
			return 1
		case r < 95:
			return time.Duration(1 + s.jitRng.intn(10000))
		case r < 99:
			return time.Duration(1 + s.jitRng.intn(2000000))
		default:
			return time.Duration(1 + s.jitRng.intn(300000000))
		}
	}
	return 1
}

// Now replaces time.Now.
//go:norace
func Now(site string) time.Time {
	s := cur()
	if s == nil {
		return time.Now()
	}
	Yield(site)
	ilock(&s.mu)
	s.offset += s.jitterLocked()
	t := s.vnowLocked()
	iunlock(&s.mu)
	return t
}

// VNow reads the virtual clock without a yield and without advancing it (harness use).
//go:norace
func VNow() time.Time {
	s := cur()
	if s == nil {
		return time.Now()
	}
	ilock(&s.mu)
	t := s.vnowLocked()
	iunlock(&s.mu)
	return t
}

// Since replaces time.Since.
//go:norace
func Since(site string, t time.Time) time.Duration { return Now(site).Sub(t) }

// Until replaces time.Until.
//go:norace
func Until(site string, t time.Time) time.Duration { return t.Sub(Now(site)) }

// Sleep replaces time.Sleep.
//go:norace
func Sleep(site string, d time.Duration) {
	if cur() == nil {
		time.Sleep(d)
		return
	}
	Yield(site)
	if d <= 0 {
		return
	}
	BlockBegin(site)
	time.Sleep(d)
	BlockEnd(site)
}

// After replaces time.After.
//go:norace
func After(site string, d time.Duration) <-chan time.Time { return NewTimer(site, d).C }

// Timer replaces time.Timer (both the channel and the AfterFunc flavour).
type Timer struct {
	C <-chan time.Time

	c      chan time.Time
	mu     sync.Mutex
	t      *time.Timer
	fn     func()
	id     string
	fires  int
	s      *Sim
	legacy bool
	plain  *time.Timer // outside a simulation
	armed  bool
	gen    int
}

// NewTimer replaces time.NewTimer.
//go:norace
func NewTimer(site string, d time.Duration) *Timer {
	s := cur()
	if s == nil {
		t := time.NewTimer(d)
		return &Timer{C: t.C, plain: t}
	}
	Yield(site)
	tm := &Timer{s: s, legacy: s.cfg.TimerLegacy}
	tm.c = make(chan time.Time, 1)
	tm.C = tm.c
	tm.arm(d)
	return tm
}

// fireChan delivers a tick (non-blocking, capacity 1: a pending tick is kept).
//go:norace
func (tm *Timer) fireChan(gen int) {
	ilock(&tm.mu)
	if gen == tm.gen {
		tm.armed = false
		select {
		case tm.c <- VNow():
		default:
		}
	}
	iunlock(&tm.mu)
}

// arm (re)starts the underlying bubble timer; non-positive durations fire inline so
// that the firing is ordered by the controller and not by the runtime's timer thread.
//go:norace
func (tm *Timer) arm(d time.Duration) {
	ilock(&tm.mu)
	tm.gen++
	gen := tm.gen
	tm.armed = true
	iunlock(&tm.mu)
	if tm.fn != nil {
		if d <= 0 {
			tm.fireFunc(gen, true)
			return
		}
		tm.t = time.AfterFunc(d, func() { tm.fireFunc(gen, false) })
		return
	}
	if d <= 0 {
		tm.fireChan(gen)
		return
	}
	tm.t = time.AfterFunc(d, func() { tm.fireChan(gen) })
}

// fireFunc runs an AfterFunc callback as a worker of its own, parked at its entry.
//go:norace
func (tm *Timer) fireFunc(gen int, inline bool) {
	s := tm.s
	ilock(&tm.mu)
	if gen != tm.gen {
		iunlock(&tm.mu)
		return
	}
	tm.armed = false
	tm.fires++
	n := tm.fires
	iunlock(&tm.mu)
	id := tm.id + "#" + itoa(n)
	if inline {
		s.spawn(id, "timer-callback", false, "", tm.fn)
		return
	}
	// we are on the goroutine the runtime created for this firing
	w := s.newWorker(id)
	if w == nil {
		return
	}
	s.bind(w)
	defer s.finish(w)
	s.park(w, "timer-callback", wNone, 0)
	tm.fn()
}

// stopUnderlying stops the bubble timer; reports whether it was armed and had not
// fired yet.
//go:norace
func (tm *Timer) stopUnderlying() bool {
	ilock(&tm.mu)
	was := tm.armed
	tm.armed = false
	tm.gen++
	t := tm.t
	iunlock(&tm.mu)
	if t != nil {
		t.Stop()
	}
	return was
}

// Stop replaces (*time.Timer).Stop.
//go:norace
func (tm *Timer) Stop() bool {
	if tm.plain != nil {
		return tm.plain.Stop()
	}
	Yield("timer.Stop")
	was := tm.stopUnderlying()
	if tm.fn == nil && !tm.legacy {
		// Go >= 1.23 channel timers: no stale tick is received after Stop; a tick
		// that was prepared but not received counts as "stopped in time".
		select {
		case <-tm.c:
			was = true
		default:
		}
	}
	return was
}

// Reset replaces (*time.Timer).Reset.
//go:norace
func (tm *Timer) Reset(d time.Duration) bool {
	if tm.plain != nil {
		return tm.plain.Reset(d)
	}
	Yield("timer.Reset")
	was := tm.stopUnderlying()
	if tm.fn == nil && !tm.legacy {
		select {
		case <-tm.c:
			was = true
		default:
		}
	}
	tm.arm(d)
	return was
}

// AfterFunc replaces time.AfterFunc.
//go:norace
func AfterFunc(site string, d time.Duration, f func()) *Timer {
	s := cur()
	if s == nil {
		return &Timer{plain: time.AfterFunc(d, f)}
	}
	w := s.self()
	Yield(site)
	tm := &Timer{s: s, fn: f}
	ilock(&s.mu)
	if w != nil {
		tm.id = w.id + "t" + itoa(w.ntimer)
		w.ntimer++
	} else {
		tm.id = "xt" + itoa(s.timerSeq)
		s.timerSeq++
	}
	iunlock(&s.mu)
	tm.arm(d)
	return tm
}

// Ticker replaces time.Ticker.
type Ticker struct {
	C <-chan time.Time

	c      chan time.Time
	mu     sync.Mutex
	t      *time.Timer
	period time.Duration
	gen    int
	plain  *time.Ticker
}

// NewTicker replaces time.NewTicker.
//go:norace
func NewTicker(site string, d time.Duration) *Ticker {
	if cur() == nil {
		t := time.NewTicker(d)
		return &Ticker{C: t.C, plain: t}
	}
	if d <= 0 {
		panic("non-positive interval for NewTicker")
	}
	Yield(site)
	tk := &Ticker{period: d}
	tk.c = make(chan time.Time, 1)
	tk.C = tk.c
	tk.start()
	return tk
}

//go:norace
func (tk *Ticker) start() {
	ilock(&tk.mu)
	tk.gen++
	gen := tk.gen
	d := tk.period
	iunlock(&tk.mu)
	var fire func()
	fire = func() {
		ilock(&tk.mu)
		if gen != tk.gen {
			iunlock(&tk.mu)
			return
		}
		select {
		case tk.c <- VNow():
		default:
		}
		tk.t = time.AfterFunc(d, fire)
		iunlock(&tk.mu)
	}
	ilock(&tk.mu)
	tk.t = time.AfterFunc(d, fire)
	iunlock(&tk.mu)
}

// Stop replaces (*time.Ticker).Stop.
//go:norace
func (tk *Ticker) Stop() {
	if tk.plain != nil {
		tk.plain.Stop()
		return
	}
	Yield("ticker.Stop")
	ilock(&tk.mu)
	tk.gen++
	if tk.t != nil {
		tk.t.Stop()
	}
	iunlock(&tk.mu)
}

// Reset replaces (*time.Ticker).Reset.
//go:norace
func (tk *Ticker) Reset(d time.Duration) {
	if tk.plain != nil {
		tk.plain.Reset(d)
		return
	}
	Yield("ticker.Reset")
	ilock(&tk.mu)
	tk.gen++
	if tk.t != nil {
		tk.t.Stop()
	}
	tk.period = d
	iunlock(&tk.mu)
	tk.start()
}
