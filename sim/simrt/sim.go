// Package simrt is the deterministic-simulation runtime: workers, yield points, the
// controller that releases exactly one worker at a time, the choice tape, the virtual
// clock, timers and the math/rand seam. It is copied into the scratch copy of the
// repository (import path github.com/pion/transport/v3/zzverif/simrt) so that the
// instrumented packages and the harness share one instance.
//
// Outside a simulation (no active Sim) every shim degrades to the plain operation, so
// instrumented code still behaves like the original.
package simrt

import (
	"strconv"
	"fmt"
	"runtime"
	"sort"
	"strings"
	"sync"
	"sync/atomic"
	"testing"
	"testing/synctest"
	"time"
)

// Worker states.
const (
	stFree    = iota
	stSpawned // created, goroutine not yet at its first yield
	stRunning // released by the controller
	stParked  // at a yield, waiting for the controller
	stBlocked // inside a real blocking operation (channel, select, sleep, WaitGroup)
	stDone
)

// What a parked worker waits for (decides whether it is enabled).
const (
	wNone = iota
	wLock
	wRLock
	wOnce
	wQuiesce
	wIdle
)

const maxWorkers = 8192

const goidSlots = 32768

type worker struct {
	id       string
	goid     uint64
	state    int32
	site     string
	waitKind int
	waitPtr  uintptr
	resume   chan struct{}
	nchild   int
	ntimer   int
	op       string // harness-level: which API call this worker is inside
	harness  bool   // spawned by the harness (not by repo code)
	name     string
	steps    int
	blocks   int
	wakeAt   time.Time // wIdle: not before this instant of the bubble clock
	within   time.Duration // wQuiesce: quiet period required
	unlocked bool          // released a lock since its last yield (targeted strategy)
}

// Violation is the record of a failed oracle.
type Violation struct {
	Class   string `json:"class"`
	Detail  string `json:"detail"`
	Event   uint64 `json:"event"`
	SimTime string `json:"simTime"`
}

// Config is everything besides the scenario that determines a run.
type Config struct {
	Seed        uint64   `json:"seed"`        // schedule PRNG seed (used when recording)
	RandSeed    uint64   `json:"randSeed"`    // stream served to math/rand seams
	JitterSeed  uint64   `json:"jitterSeed"`  // stream for clock-read jitter
	Tape        []uint32 `json:"tape"`        // replay: choices; beyond the end = 0
	Replay      bool     `json:"-"`           // use Tape instead of recording
	Strategy    string   `json:"strategy"`    // uniform | sticky | pct | targeted
	SwitchP     float64  `json:"switchP"`     // sticky/targeted: probability of switching worker
	StallP      float64  `json:"stallP"`      // probability of letting time pass although workers are enabled
	Jitter      string   `json:"jitter"`      // 1ns | small | mixed
	TimerLegacy bool     `json:"timerLegacy"` // pre-Go-1.23 timer channel semantics
	MaxSteps    int      `json:"maxSteps"`
	PCTDepth    int      `json:"pctDepth"`
	// PostUnlockYield: a worker also yields right after releasing a mutex, so that the window
	// between "unlock" and the next instruction that touches shared state can be interleaved
	PostUnlockYield bool `json:"postUnlockYield,omitempty"`
	// AtomicYield: a worker yields after every sync/atomic operation (off in sequential
	// harnesses and in replay files recorded before the rule existed)
	AtomicYield bool `json:"atomicYield,omitempty"`
	Trace       bool     `json:"-"` // keep a full textual trace
}

// Result of one run.
type Result struct {
	Violation   *Violation
	Tape        []uint32
	Steps       int
	Workers     int
	Switches    int
	SimTime     time.Duration
	SchedHash   uint64
	Trace       []string
	Leaked      []string // workers not finished at the end (id@site)
	StepLimit   bool
	Infra       string // infrastructure problem (not a property violation)
	Faults      map[string]int
	Probes      map[string]int
	Stalls      int
	TimeJumps   int
	Quiescences int
	RandSeed    uint64
	Data        interface{} // set by the scenario through Env.SetData, for checks after the run
}

// Sim is one simulated run.
type Sim struct {
	cfg Config

	mu       sync.Mutex // guards everything below (never held across a yield)
	workers  [maxWorkers]worker
	nworkers int
	goidKeys [goidSlots]uint64
	goidVals [goidSlots]*worker

	held [256]heldLock // known-held mutexes
	onces [64]uintptr  // sync.Once currently running
	mainDone    bool
	mainDoneSeq uint64    // step count at which the driver was first seen finished
	mainDoneAt  time.Time // bubble time of that moment
	conds map[uintptr][]chan struct{} // emulated sync.Cond wait lists
	pools map[*sync.Pool][]any       // per-run stand-in for sync.Pool contents

	ctlWake chan struct{}
	ctlGoid uint64

	tape     []uint32
	tapePos  int
	rng      prng
	randRng  prng
	jitRng   prng
	offset   time.Duration // virtual clock = bubble clock + offset
	start    time.Time
	seq      uint64 // controller steps
	stamp    uint64 // harness stamps
	last     *worker
	switches int
	hash     uint64
	trace    []string
	viol     *Violation
	infra    string
	aborted  bool
	stepLim  bool
	faults   map[string]int
	probes   map[string]int
	stalls   int
	jumps    int
	quiesc   int
	pctPrio  map[string]int
	pctChg   []int
	timerSeq int
	simElapsed time.Duration
	skipped    time.Duration
	onStep   []func()
	data     interface{}
}

type heldLock struct {
	ptr     uintptr
	writer  bool
	readers int
}

var active atomic.Pointer[Sim]

//go:norace
func cur() *Sim { return active.Load() }

// Active reports whether a simulation is running in this process.
//go:norace
func Active() bool { return cur() != nil }

const horizon = 1000 * time.Hour

// goid parses the current goroutine id from runtime.Stack.
//go:norace
func goid() uint64 {
	var buf [40]byte
	n := runtime.Stack(buf[:], false)
	// "goroutine 123 ["
	var id uint64
	for i := 10; i < n; i++ {
		c := buf[i]
		if c < '0' || c > '9' {
			break
		}
		id = id*10 + uint64(c-'0')
	}
	return id
}

//go:norace
func (s *Sim) self() *worker {
	g := goid()
	ilock(&s.mu)
	w := s.goidGet(g)
	iunlock(&s.mu)
	return w
}

//go:norace
func (s *Sim) newWorker(id string) *worker {
	ilock(&s.mu)
	defer iunlock(&s.mu)
	if s.nworkers >= maxWorkers {
		s.infraLocked("too many workers")
		return nil
	}
	w := &s.workers[s.nworkers]
	s.nworkers++
	*w = worker{id: id, state: stSpawned, resume: make(chan struct{}, 1)}
	return w
}

//go:norace
func (s *Sim) bind(w *worker) {
	g := goid()
	ilock(&s.mu)
	w.goid = g
	s.goidPut(g, w)
	iunlock(&s.mu)
}

//go:norace
func (s *Sim) infraLocked(msg string) {
	if s.infra == "" {
		s.infra = msg
	}
	s.aborted = true
}

//go:norace
func (s *Sim) poke() {
	select {
	case s.ctlWake <- struct{}{}:
	default:
	}
}

// park blocks the calling worker until the controller releases it.
//go:norace
func (s *Sim) park(w *worker, site string, kind int, ptr uintptr) {
	ilock(&s.mu)
	w.site = site
	w.waitKind = kind
	w.waitPtr = ptr
	w.state = stParked
	iunlock(&s.mu)
	raceOff()
	s.poke()
	<-w.resume
	raceOn()
}

//go:norace
func (s *Sim) finish(w *worker) {
	if r := recover(); r != nil {
		if _, ok := r.(abortSentinel); !ok {
			stack := make([]byte, 16384)
			stack = stack[:runtime.Stack(stack, false)]
			s.failWorkerPanic(w, r, string(stack))
		}
	}
	ilock(&s.mu)
	w.state = stDone
	s.goidDel(w.goid)
	iunlock(&s.mu)
	raceOff()
	s.poke()
	raceOn()
}

type abortSentinel struct{}

//go:norace
func panicFunc(stack string) string {
	// first frame after the panic machinery that lies in the repository
	lines := strings.Split(stack, "\n")
	for _, l := range lines {
		if strings.HasPrefix(l, "github.com/pion/transport/v3/") && !strings.Contains(l, "/zzverif/") {
			f := l
			if i := strings.LastIndex(f, "("); i > 0 {
				f = f[:i]
			}
			return strings.TrimPrefix(f, "github.com/pion/transport/v3/")
		}
	}
	return "unknown"
}

//go:norace
func (s *Sim) failWorkerPanic(w *worker, r interface{}, stack string) {
	ilock(&s.mu)
	defer iunlock(&s.mu)
	if s.viol == nil {
		s.viol = &Violation{
			Class:   "panic:" + panicFunc(stack),
			Detail:  fmt.Sprintf("worker %s panicked: %v\n%s", w.id, r, stack),
			Event:   s.seq,
			SimTime: s.vnowLocked().Sub(s.start).String(),
		}
	}
	s.aborted = true
}

// ---------------------------------------------------------------------------
// Public worker-side API

// Yield is a scheduling point: the worker parks until the controller picks it.
//go:norace
func Yield(site string) {
	s := cur()
	if s == nil {
		return
	}
	w := s.self()
	if w == nil {
		s.foreign(site)
		return
	}
	s.park(w, site, wNone, 0)
}

// foreign is called when a goroutine that is not a worker reaches a shim while a
// simulation is active. The controller itself may call into repo code only through
// non-blocking paths; anything else is an infrastructure error.
//go:norace
func (s *Sim) foreign(site string) {
	if goid() == s.ctlGoid {
		return // controller context: pass through
	}
	ilock(&s.mu)
	s.infraLocked("non-worker goroutine reached yield point " + site)
	iunlock(&s.mu)
}

// BlockBegin marks the worker as being inside a real blocking operation.
//go:norace
func BlockBegin(site string) {
	s := cur()
	if s == nil {
		return
	}
	w := s.self()
	if w == nil {
		return
	}
	ilock(&s.mu)
	w.site = site
	w.state = stBlocked
	w.blocks++
	iunlock(&s.mu)
}

// BlockEnd ends a real blocking operation and yields so that the controller decides
// what happens next.
//go:norace
func BlockEnd(site string) {
	s := cur()
	if s == nil {
		return
	}
	w := s.self()
	if w == nil {
		return
	}
	s.park(w, site, wNone, 0)
}

// Go starts f as a new worker (rewritten form of the go statement).
//go:norace
func Go(site string, f func()) {
	s := cur()
	if s == nil {
		go f()
		return
	}
	parent := s.self()
	if parent == nil {
		s.foreign(site)
		go f()
		return
	}
	ilock(&s.mu)
	id := parent.id + "." + itoa(parent.nchild)
	parent.nchild++
	iunlock(&s.mu)
	s.spawn(id, site, false, "", f)
}

//go:norace
func (s *Sim) spawn(id, site string, harness bool, name string, f func()) *worker {
	w := s.newWorker(id)
	if w == nil {
		return nil
	}
	w.site = site
	w.harness = harness
	w.name = name
	go func() {
		s.bind(w)
		defer s.finish(w)
		s.park(w, site, wNone, 0)
		f()
	}()
	return w
}

//go:norace
func itoa(i int) string {
	if i < 10 {
		return string(rune('0' + i))
	}
	return fmt.Sprint(i)
}

// ---------------------------------------------------------------------------
// Controller

// Run executes main as worker "0" inside a synctest bubble under the controller.
//go:norace
func Run(t *testing.T, cfg Config, main func(env *Env)) (res Result) {
	s := &Sim{cfg: cfg}
	s.faults = map[string]int{}
	s.probes = map[string]int{}
	s.rng.seed(cfg.Seed)
	s.randRng.seed(cfg.RandSeed ^ 0x9e3779b97f4a7c15)
	s.jitRng.seed(cfg.JitterSeed ^ 0xbf58476d1ce4e5b9)
	if cfg.Replay {
		s.tape = cfg.Tape
	}
	if s.cfg.MaxSteps == 0 {
		s.cfg.MaxSteps = 200000
	}
	s.hash = 1469598103934665603
	if !cfg.Replay {
		s.tape = make([]uint32, 0, 1<<14)
	}
	if !active.CompareAndSwap(nil, s) {
		panic("simrt: nested Run")
	}
	defer func() {
		active.Store(nil)
		res = s.result()
	}()
	body := func(tt *testing.T) {
		defer func() {
			if r := recover(); r != nil {
				if !strings.Contains(fmt.Sprint(r), "deadlock") {
					panic(r)
				}
				// leftover goroutines of an aborted run; expected
			}
		}()
		synctest.Test(tt, func(t *testing.T) {
			s.ctlGoid = goid()
			s.ctlWake = make(chan struct{}, 1) // must be created inside the bubble
			s.start = time.Now()
			env := &Env{s: s}
			s.spawn("0", "main", true, "main", func() { main(env) })
			s.controller()
		})
	}
	if RaceEnabled {
		// a race report fails the (sub)test it occurs in; as a subtest it does not end the
		// exploring test function
		t.Run("sim", body)
	} else {
		body(t)
	}
	return
}

//go:norace
func (s *Sim) result() Result {
	ilock(&s.mu)
	defer iunlock(&s.mu)
	r := Result{
		Violation: s.viol, Steps: int(s.seq), Workers: s.nworkers, Switches: s.switches,
		RandSeed: s.cfg.RandSeed, Data: s.data, SchedHash: s.hash, Trace: s.trace, StepLimit: s.stepLim, Infra: s.infra,
		Faults: s.faults, Probes: s.probes, Stalls: s.stalls, TimeJumps: s.jumps, Quiescences: s.quiesc,
	}
	if !s.cfg.Replay {
		r.Tape = s.tape
	} else {
		r.Tape = s.cfg.Tape
	}
	r.SimTime = s.simElapsed - s.skipped
	for i := 0; i < s.nworkers; i++ {
		w := &s.workers[i]
		if w.state != stDone {
			r.Leaked = append(r.Leaked, w.id+"@"+w.site+stateName(w.state))
		}
	}
	sort.Strings(r.Leaked)
	return r
}

//go:norace
func stateName(st int32) string {
	switch st {
	case stParked:
		return "(parked)"
	case stBlocked:
		return "(blocked)"
	case stRunning:
		return "(running)"
	case stSpawned:
		return "(spawned)"
	}
	return ""
}

//go:norace
func (s *Sim) enabledLocked(buf []*worker) []*worker {
	buf = buf[:0]
	for i := 0; i < s.nworkers; i++ {
		w := &s.workers[i]
		if w.state != stParked {
			continue
		}
		switch w.waitKind {
		case wLock:
			if h := s.findHeld(w.waitPtr); h != nil && (h.writer || h.readers > 0) {
				continue
			}
		case wRLock:
			if h := s.findHeld(w.waitPtr); h != nil && h.writer {
				continue
			}
		case wOnce:
			if s.onceRunning(w.waitPtr) {
				continue
			}
		case wQuiesce, wIdle:
			continue
		}
		buf = append(buf, w)
	}
	// sort by identity (insertion sort; small)
	for i := 1; i < len(buf); i++ {
		for j := i; j > 0 && buf[j].id < buf[j-1].id; j-- {
			buf[j], buf[j-1] = buf[j-1], buf[j]
		}
	}
	// current worker first
	if s.last != nil {
		for i, w := range buf {
			if w == s.last {
				copy(buf[1:i+1], buf[:i])
				buf[0] = w
				break
			}
		}
	}
	return buf
}

//go:norace
func (s *Sim) liveLocked() (live, quiesceWaiters int) {
	for i := 0; i < s.nworkers; i++ {
		w := &s.workers[i]
		if w.state != stDone {
			live++
			if w.state == stParked && w.waitKind == wQuiesce {
				quiesceWaiters++
			}
		}
	}
	return
}

//go:norace
func (s *Sim) controller() {
	raceOff() // the controller must not order the workers' accesses
	defer raceOn()
	var ebuf []*worker
	for {
		synctest.Wait()
		select {
		case <-s.ctlWake:
		default:
		}
		for _, f := range s.onStep {
			f()
		}
		ilock(&s.mu)
		if s.aborted {
			s.simElapsed = s.vnowLocked().Sub(s.start)
			iunlock(&s.mu)
			return
		}
		ebuf = s.enabledLocked(ebuf)
		live, qw := s.liveLocked()
		if live == 0 {
			s.simElapsed = s.vnowLocked().Sub(s.start)
			iunlock(&s.mu)
			return
		}
		// the driver (worker "0") has returned: whatever still runs was left behind by the code
		// under test. Workers that are blocked for good end the run through the quiescence path
		// below; a leftover periodic goroutine (ticker) would keep time moving until the step
		// limit, so after a grace period the run is ended and the leftovers are reported.
		if s.nworkers > 0 && s.workers[0].state == stDone {
			if !s.mainDone {
				s.mainDone = true
				s.mainDoneSeq = s.seq
				s.mainDoneAt = time.Now()
			} else if s.seq-s.mainDoneSeq > 20000 || time.Since(s.mainDoneAt) > 10000*time.Hour {
				s.aborted = true
				s.simElapsed = s.vnowLocked().Sub(s.start)
				iunlock(&s.mu)
				return
			}
		}
		if int(s.seq) >= s.cfg.MaxSteps {
			s.stepLim = true
			s.aborted = true
			s.simElapsed = s.vnowLocked().Sub(s.start)
			iunlock(&s.mu)
			return
		}
		if len(ebuf) == 0 {
			// workers waiting for "idle after d": due ones become runnable now that
			// nobody else can run; otherwise let time pass until the first is due
			var nextDue time.Time
			released := false
			now := time.Now()
			for i := 0; i < s.nworkers; i++ {
				w := &s.workers[i]
				if w.state == stParked && w.waitKind == wIdle {
					if !w.wakeAt.After(now) {
						w.waitKind = wNone
						released = true
					} else if nextDue.IsZero() || w.wakeAt.Before(nextDue) {
						nextDue = w.wakeAt
					}
				}
			}
			if released {
				iunlock(&s.mu)
				continue
			}
			if !nextDue.IsZero() {
				iunlock(&s.mu)
				s.waitWake(nextDue.Sub(now))
				continue
			}
			// quiescence: nobody can run; wait for the shortest quiet period any waiter asks for
			quiet := horizon
			for i := 0; i < s.nworkers; i++ {
				w := &s.workers[i]
				if w.state == stParked && w.waitKind == wQuiesce && w.within > 0 && w.within < quiet {
					quiet = w.within
				}
			}
			iunlock(&s.mu)
			if s.waitWake(quiet) {
				continue
			}
			// nothing happened for the whole quiet period
			ilock(&s.mu)
			s.quiesc++
			s.skipped += quiet
			if qw > 0 {
				for i := 0; i < s.nworkers; i++ {
					w := &s.workers[i]
					if w.state == stParked && w.waitKind == wQuiesce && ((w.within == 0 && quiet == horizon) || (w.within > 0 && w.within <= quiet)) {
						w.waitKind = wNone
					}
				}
				iunlock(&s.mu)
				continue
			}
			// nobody waits for quiescence: the remaining workers are stuck for ever
			s.aborted = true
			s.simElapsed = s.vnowLocked().Sub(s.start)
			iunlock(&s.mu)
			return
		}
		// stall fault: let simulated time pass although workers could run
		if s.cfg.StallP > 0 && s.chooseLocked(kStall, 2, s.cfg.StallP) == 1 {
			d := stallDur(s.chooseLocked(kStallDur, len(stallDurs), 1))
			s.stalls++
			iunlock(&s.mu)
			s.waitWake(d)
			continue
		}
		idx := s.pickLocked(ebuf)
		w := ebuf[idx]
		if s.last != nil && w != s.last {
			s.switches++
		}
		s.last = w
		s.seq++
		w.steps++
		s.hash = hashStep(s.hash, w.id, w.site)
		if s.cfg.Trace {
			// no fmt here: its printer pool would be shared with workers behind the race detector's back
			s.trace = append(s.trace, strconv.FormatUint(s.seq, 10)+" "+w.id+" "+w.site+" c="+strconv.Itoa(idx)+"/"+strconv.Itoa(len(ebuf))+" t="+s.vnowLocked().Sub(s.start).String())
		}
		w.state = stRunning
		w.unlocked = false
		iunlock(&s.mu)
		w.resume <- struct{}{}
	}
}

var stallDurs = []time.Duration{time.Microsecond, 50 * time.Microsecond, time.Millisecond, 20 * time.Millisecond, 150 * time.Millisecond, 2 * time.Second, 40 * time.Second}

//go:norace
func stallDur(i int) time.Duration { return stallDurs[i%len(stallDurs)] }

// waitWake blocks the controller (letting the fake clock advance) until a worker
// reaches a yield or d of simulated time has passed. Reports whether a worker arrived.
//go:norace
func (s *Sim) waitWake(d time.Duration) bool {
	t := time.NewTimer(d)
	defer t.Stop()
	before := time.Now()
	select {
	case <-s.ctlWake:
		if time.Now().After(before) {
			ilock(&s.mu)
			s.jumps++
			iunlock(&s.mu)
		}
		return true
	case <-t.C:
		return false
	}
}

//go:norace
func hashStep(h uint64, id, site string) uint64 {
	for i := 0; i < len(id); i++ {
		h = (h ^ uint64(id[i])) * 1099511628211
	}
	h = (h ^ 0xff) * 1099511628211
	for i := 0; i < len(site); i++ {
		h = (h ^ uint64(site[i])) * 1099511628211
	}
	return h
}

//go:norace
func (s *Sim) goidGet(g uint64) *worker {
	for i, n := int(g%goidSlots), 0; n < goidSlots; i, n = (i+1)%goidSlots, n+1 {
		if s.goidKeys[i] == g {
			return s.goidVals[i]
		}
		if s.goidKeys[i] == 0 {
			return nil
		}
	}
	return nil
}

//go:norace
func (s *Sim) goidPut(g uint64, w *worker) {
	for i, n := int(g%goidSlots), 0; n < goidSlots; i, n = (i+1)%goidSlots, n+1 {
		if s.goidKeys[i] == 0 || s.goidKeys[i] == g {
			s.goidKeys[i] = g
			s.goidVals[i] = w
			return
		}
	}
	s.infraLocked("goroutine table full")
}

//go:norace
func (s *Sim) goidDel(g uint64) {
	for i, n := int(g%goidSlots), 0; n < goidSlots; i, n = (i+1)%goidSlots, n+1 {
		if s.goidKeys[i] == g {
			s.goidVals[i] = nil
			return
		}
		if s.goidKeys[i] == 0 {
			return
		}
	}
}
