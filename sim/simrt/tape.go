package simrt

// Choice kinds (only for statistics; the tape is a flat list).
const (
	kSched = iota
	kSelect
	kStall
	kStallDur
)

// prng is SplitMix64.
type prng struct{ x uint64 }

//go:norace
func (p *prng) seed(s uint64) { p.x = s + 0x9e3779b97f4a7c15 }
//go:norace
func (p *prng) next() uint64 {
	p.x += 0x9e3779b97f4a7c15
	z := p.x
	z = (z ^ (z >> 30)) * 0xbf58476d1ce4e5b9
	z = (z ^ (z >> 27)) * 0x94d049bb133111eb
	return z ^ (z >> 31)
}
//go:norace
func (p *prng) intn(n int) int {
	if n <= 1 {
		return 0
	}
	return int(p.next() % uint64(n))
}
//go:norace
func (p *prng) float() float64 { return float64(p.next()>>11) / (1 << 53) }

// Mix derives a sub-seed.
//go:norace
func Mix(a, b uint64) uint64 {
	var p prng
	p.seed(a ^ (b * 0xd6e8feb86659fd93))
	return p.next()
}

// chooseLocked returns a value in [0,n). Replay: from the tape (values beyond the end
// are 0, values >= n are reduced). Record: for n==2 with p<1, 1 with probability p;
// otherwise uniform; the value is appended to the tape.
//go:norace
func (s *Sim) chooseLocked(kind, n int, p float64) int {
	if n <= 1 {
		return 0
	}
	if s.cfg.Replay {
		v := 0
		if s.tapePos < len(s.tape) {
			v = int(s.tape[s.tapePos]) % n
		}
		s.tapePos++
		return v
	}
	var v int
	if p < 1 {
		if s.rng.float() < p {
			if n == 2 {
				v = 1
			} else {
				v = 1 + s.rng.intn(n-1)
			}
		}
	} else {
		v = s.rng.intn(n)
	}
	s.tape = append(s.tape, uint32(v))
	return v
}

// pickLocked chooses which enabled worker runs next (index into e; e[0] is the
// worker that ran last if it is still enabled).
//go:norace
func (s *Sim) pickLocked(e []*worker) int {
	n := len(e)
	if n <= 1 {
		return 0
	}
	if s.cfg.Replay {
		return s.chooseLocked(kSched, n, 1)
	}
	var v int
	switch s.cfg.Strategy {
	case "sticky":
		if e[0] == s.last {
			if s.rng.float() < s.cfg.SwitchP {
				v = 1 + s.rng.intn(n-1)
			}
		} else {
			v = s.rng.intn(n)
		}
	case "targeted":
		// switch away preferably right after the running worker released a lock (the window
		// between "unlock" and "park"), or when a timer callback has just been dispatched
		p := 0.03
		if e[0] == s.last && s.last.unlocked {
			p = 0.6
		}
		for _, w := range e[1:] {
			if w.site == "timer-callback" && w.steps == 0 {
				p = 0.5
			}
		}
		if e[0] == s.last {
			if s.rng.float() < p {
				v = 1 + s.rng.intn(n-1)
			}
		} else {
			v = s.rng.intn(n)
		}
	case "pct":
		v = s.pctPick(e)
	default: // uniform
		v = s.rng.intn(n)
	}
	s.tape = append(s.tape, uint32(v))
	return v
}

// pctPick: PCT-style random priorities with a few priority-change points.
//go:norace
func (s *Sim) pctPick(e []*worker) int {
	if s.pctPrio == nil {
		s.pctPrio = map[string]int{}
		d := s.cfg.PCTDepth
		if d < 1 {
			d = 1
		}
		for i := 0; i < d-1; i++ {
			s.pctChg = append(s.pctChg, 1+s.rng.intn(400))
		}
	}
	best, bestP := 0, -1<<62
	for i, w := range e {
		p, ok := s.pctPrio[w.id]
		if !ok {
			p = 1000 + s.rng.intn(1000000)
			s.pctPrio[w.id] = p
		}
		if p > bestP {
			best, bestP = i, p
		}
	}
	for i, c := range s.pctChg {
		if int(s.seq) == c {
			s.pctPrio[e[best].id] = i // drop below every initial priority
		}
	}
	return best
}

// SelectOrder yields, then returns a controller-chosen order in which the cases of a
// select statement are polled (identity permutation = boring choice 0).
//go:norace
func SelectOrder(site string, n int) []int {
	s := cur()
	out := make([]int, n)
	for i := range out {
		out[i] = i
	}
	if s == nil {
		return out
	}
	Yield(site)
	if n <= 1 {
		return out
	}
	ilock(&s.mu)
	// Fisher-Yates driven by choices; choice 0 keeps the element in place.
	for i := 0; i < n-1; i++ {
		j := i + s.chooseLocked(kSelect, n-i, 1)
		out[i], out[j] = out[j], out[i]
	}
	iunlock(&s.mu)
	return out
}

// ---------------------------------------------------------------------------
// math/rand seam

//go:norace
func randU64() uint64 {
	s := cur()
	if s == nil {
		return fallbackRand.next()
	}
	ilock(&s.mu)
	v := s.randRng.next()
	iunlock(&s.mu)
	return v
}

var fallbackRand = func() *lockedPrng { p := &lockedPrng{}; p.p.seed(1); return p }()

type lockedPrng struct {
	p prng
}

//go:norace
func (l *lockedPrng) next() uint64 { return l.p.next() }

// RandSeed replaces rand.Seed: the stream is owned by the simulator.
//go:norace
func RandSeed(int64) {}

// RandIntn replaces rand.Intn.
//go:norace
func RandIntn(n int) int {
	if n <= 0 {
		panic("invalid argument to Intn")
	}
	return int(randU64() % uint64(n))
}

// RandInt63n replaces rand.Int63n.
//go:norace
func RandInt63n(n int64) int64 {
	if n <= 0 {
		panic("invalid argument to Int63n")
	}
	return int64(randU64()>>1) % n
}

// RandInt31n replaces rand.Int31n.
//go:norace
func RandInt31n(n int32) int32 { return int32(RandInt63n(int64(n))) }

// RandInt63 replaces rand.Int63.
//go:norace
func RandInt63() int64 { return int64(randU64() >> 1) }

// RandInt replaces rand.Int.
//go:norace
func RandInt() int { return int(randU64() >> 1) }

// RandUint32 replaces rand.Uint32.
//go:norace
func RandUint32() uint32 { return uint32(randU64() >> 32) }

// RandUint64 replaces rand.Uint64.
//go:norace
func RandUint64() uint64 { return randU64() }

// RandFloat64 replaces rand.Float64.
//go:norace
func RandFloat64() float64 { return float64(randU64()>>11) / (1 << 53) }

// RandRead replaces rand.Read.
//go:norace
func RandRead(p []byte) (int, error) {
	for i := range p {
		p[i] = byte(randU64())
	}
	return len(p), nil
}

// Rand replaces *rand.Rand: generators created with rand.New are served from the
// simulator's stream as well (their seed is ignored), so runs stay reproducible.
// A *rand.Rand is not safe for concurrent use; every method writes the plain field
// `touch` so that the race detector (C19) still sees unsynchronised sharing of one
// generator although its state lives in the simulator.
type Rand struct{ touch uint32 }

// Source replaces rand.Source (same remark).
type Source struct{ touch uint32 }

// RandNewSource replaces rand.NewSource.
func RandNewSource(int64) *Source { return &Source{} }

// RandNew replaces rand.New.
func RandNew(*Source) *Rand { return &Rand{} }

func (s *Source) Int63() int64   { s.touch++; return RandInt63() }
func (s *Source) Uint64() uint64 { s.touch++; return RandUint64() }
func (s *Source) Seed(int64)     { s.touch++ }

func (r *Rand) Seed(int64)                 { r.touch++ }
func (r *Rand) Intn(n int) int             { r.touch++; return RandIntn(n) }
func (r *Rand) Int63n(n int64) int64       { r.touch++; return RandInt63n(n) }
func (r *Rand) Int31n(n int32) int32       { r.touch++; return RandInt31n(n) }
func (r *Rand) Int63() int64               { r.touch++; return RandInt63() }
func (r *Rand) Int31() int32               { r.touch++; return int32(RandInt63() >> 32) }
func (r *Rand) Int() int                   { r.touch++; return RandInt() }
func (r *Rand) Uint32() uint32             { r.touch++; return RandUint32() }
func (r *Rand) Uint64() uint64             { r.touch++; return RandUint64() }
func (r *Rand) Float64() float64           { r.touch++; return RandFloat64() }
func (r *Rand) Float32() float32           { r.touch++; return float32(RandFloat64()) }
func (r *Rand) NormFloat64() float64       { r.touch++; return RandFloat64()*2 - 1 }
func (r *Rand) ExpFloat64() float64        { r.touch++; return RandFloat64() }
func (r *Rand) Read(p []byte) (int, error) { r.touch++; return RandRead(p) }
func (r *Rand) Perm(n int) []int {
	r.touch++
	p := make([]int, n)
	for i := range p {
		j := RandIntn(i + 1)
		p[i] = p[j]
		p[j] = i
	}
	return p
}
func (r *Rand) Shuffle(n int, swap func(i, j int)) {
	r.touch++
	for i := n - 1; i > 0; i-- {
		swap(i, RandIntn(i+1))
	}
}

// RandInt31 replaces rand.Int31.
func RandInt31() int32 { return int32(RandInt63() >> 32) }

// RandFloat32 replaces rand.Float32.
func RandFloat32() float32 { return float32(RandFloat64()) }

// RandPerm replaces rand.Perm.
func RandPerm(n int) []int { return (&Rand{}).Perm(n) }

// RandShuffle replaces rand.Shuffle.
func RandShuffle(n int, swap func(i, j int)) { (&Rand{}).Shuffle(n, swap) }
