//go:build race

package simrt

import (
	"runtime"
	"sync"
)

// Under the race detector the simulator's own synchronisation must not become a
// happens-before conduit between workers (it would order every access and blind the
// detector): synchronisation events of simrt-internal mutexes and of the park/resume
// hand-over are ignored, and simrt's bookkeeping functions are //go:norace.

//go:norace
func ilock(m *sync.Mutex) { runtime.RaceDisable(); m.Lock() }

//go:norace
func iunlock(m *sync.Mutex) { m.Unlock(); runtime.RaceEnable() }

//go:norace
func raceOff() { runtime.RaceDisable() }

//go:norace
func raceOn() { runtime.RaceEnable() }

// RaceEnabled reports whether the binary was built with the race detector.
const RaceEnabled = true
