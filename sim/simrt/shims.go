package simrt

import (
	"context"
	"sync"
	"unsafe"
)

//go:norace
func (s *Sim) findHeld(p uintptr) *heldLock {
	for i := range s.held {
		if s.held[i].ptr == p {
			return &s.held[i]
		}
	}
	return nil
}

//go:norace
func (s *Sim) getHeld(p uintptr) *heldLock {
	if h := s.findHeld(p); h != nil {
		return h
	}
	for i := range s.held {
		if s.held[i].ptr == 0 {
			s.held[i] = heldLock{ptr: p}
			return &s.held[i]
		}
	}
	s.infraLocked("held-lock table full")
	return &s.held[0]
}

//go:norace
func (s *Sim) dropHeld(h *heldLock) {
	if !h.writer && h.readers <= 0 {
		*h = heldLock{}
	}
}

//go:norace
func (s *Sim) onceRunning(p uintptr) bool {
	for _, o := range s.onces {
		if o == p {
			return true
		}
	}
	return false
}

// Lock replaces (*sync.Mutex).Lock: yield, then TryLock, repeated until acquired.
//go:norace
func Lock(site string, m *sync.Mutex) {
	s := cur()
	var w *worker
	if s != nil {
		w = s.self()
	}
	if w == nil {
		m.Lock()
		return
	}
	p := uintptr(unsafe.Pointer(m))
	for {
		s.park(w, site, wLock, p)
		if m.TryLock() {
			ilock(&s.mu)
			s.getHeld(p).writer = true
			iunlock(&s.mu)
			return
		}
	}
}

// Unlock replaces (*sync.Mutex).Unlock.
//go:norace
func Unlock(m *sync.Mutex) {
	if s := cur(); s != nil {
		p := uintptr(unsafe.Pointer(m))
		ilock(&s.mu)
		if h := s.findHeld(p); h != nil {
			h.writer = false
			s.dropHeld(h)
		}
		iunlock(&s.mu)
		if w := s.self(); w != nil {
			w.unlocked = true
			if s.cfg.PostUnlockYield {
				m.Unlock()
				Yield("post-unlock")
				return
			}
		}
	}
	m.Unlock()
}

// TryLock replaces (*sync.Mutex).TryLock.
//go:norace
func TryLock(site string, m *sync.Mutex) bool {
	Yield(site)
	ok := m.TryLock()
	if s := cur(); s != nil && ok {
		p := uintptr(unsafe.Pointer(m))
		ilock(&s.mu)
		s.getHeld(p).writer = true
		iunlock(&s.mu)
	}
	return ok
}

// RWTryLock replaces (*sync.RWMutex).TryLock.
//go:norace
func RWTryLock(site string, m *sync.RWMutex) bool {
	Yield(site)
	ok := m.TryLock()
	if s := cur(); s != nil && ok {
		p := uintptr(unsafe.Pointer(m))
		ilock(&s.mu)
		s.getHeld(p).writer = true
		iunlock(&s.mu)
	}
	return ok
}

// RWTryRLock replaces (*sync.RWMutex).TryRLock.
//go:norace
func RWTryRLock(site string, m *sync.RWMutex) bool {
	Yield(site)
	ok := m.TryRLock()
	if s := cur(); s != nil && ok {
		p := uintptr(unsafe.Pointer(m))
		ilock(&s.mu)
		s.getHeld(p).readers++
		iunlock(&s.mu)
	}
	return ok
}

// RWLock replaces (*sync.RWMutex).Lock.
//go:norace
func RWLock(site string, m *sync.RWMutex) {
	s := cur()
	var w *worker
	if s != nil {
		w = s.self()
	}
	if w == nil {
		m.Lock()
		return
	}
	p := uintptr(unsafe.Pointer(m))
	for {
		s.park(w, site, wLock, p)
		if m.TryLock() {
			ilock(&s.mu)
			s.getHeld(p).writer = true
			iunlock(&s.mu)
			return
		}
	}
}

// RWUnlock replaces (*sync.RWMutex).Unlock.
//go:norace
func RWUnlock(m *sync.RWMutex) {
	if s := cur(); s != nil {
		p := uintptr(unsafe.Pointer(m))
		ilock(&s.mu)
		if h := s.findHeld(p); h != nil {
			h.writer = false
			s.dropHeld(h)
		}
		iunlock(&s.mu)
		if w := s.self(); w != nil {
			w.unlocked = true
			if s.cfg.PostUnlockYield {
				m.Unlock()
				Yield("post-unlock")
				return
			}
		}
	}
	m.Unlock()
}

// RWRLock replaces (*sync.RWMutex).RLock.
//go:norace
func RWRLock(site string, m *sync.RWMutex) {
	s := cur()
	var w *worker
	if s != nil {
		w = s.self()
	}
	if w == nil {
		m.RLock()
		return
	}
	p := uintptr(unsafe.Pointer(m))
	for {
		s.park(w, site, wRLock, p)
		if m.TryRLock() {
			ilock(&s.mu)
			s.getHeld(p).readers++
			iunlock(&s.mu)
			return
		}
	}
}

// RWRUnlock replaces (*sync.RWMutex).RUnlock.
//go:norace
func RWRUnlock(m *sync.RWMutex) {
	if s := cur(); s != nil {
		p := uintptr(unsafe.Pointer(m))
		ilock(&s.mu)
		if h := s.findHeld(p); h != nil {
			h.readers--
			s.dropHeld(h)
		}
		iunlock(&s.mu)
	}
	m.RUnlock()
}

// OnceDo replaces (*sync.Once).Do: f may contain yield points, so a second caller
// waits at a yield (not inside sync.Once's private mutex) while f runs.
//go:norace
func OnceDo(site string, o *sync.Once, f func()) {
	s := cur()
	var w *worker
	if s != nil {
		w = s.self()
	}
	if w == nil {
		o.Do(f)
		return
	}
	p := uintptr(unsafe.Pointer(o))
	for {
		s.park(w, site, wOnce, p)
		ilock(&s.mu)
		if s.onceRunning(p) {
			iunlock(&s.mu)
			continue
		}
		slot := -1
		for i, x := range s.onces {
			if x == 0 {
				slot = i
				break
			}
		}
		if slot < 0 {
			s.infraLocked("once table full")
			slot = 0
		}
		s.onces[slot] = p
		iunlock(&s.mu)
		defer func() {
			ilock(&s.mu)
			for i, x := range s.onces {
				if x == p {
					s.onces[i] = 0
				}
			}
			iunlock(&s.mu)
		}()
		o.Do(f)
		return
	}
}

// WaitGroupWait replaces (*sync.WaitGroup).Wait.
//go:norace
func WaitGroupWait(site string, wg *sync.WaitGroup) {
	if cur() == nil {
		wg.Wait()
		return
	}
	Yield(site)
	BlockBegin(site)
	wg.Wait()
	BlockEnd(site)
}

// ---------------------------------------------------------------------------
// channels

// Recv replaces the expression <-c.
//go:norace
func Recv[T any](site string, c <-chan T) T {
	v, _ := Recv2(site, c)
	return v
}

// Recv2 replaces v, ok := <-c.
//go:norace
func Recv2[T any](site string, c <-chan T) (T, bool) {
	if cur() == nil {
		v, ok := <-c
		return v, ok
	}
	Yield(site)
	select {
	case v, ok := <-c:
		return v, ok
	default:
	}
	BlockBegin(site)
	v, ok := <-c
	BlockEnd(site)
	return v, ok
}

// Send replaces the statement c <- v.
//go:norace
func Send[T any](site string, c chan<- T, v T) {
	if cur() == nil {
		c <- v
		return
	}
	Yield(site)
	select {
	case c <- v:
		return
	default:
	}
	BlockBegin(site)
	c <- v
	BlockEnd(site)
}

// Close replaces close(c).
//go:norace
func Close[T any](site string, c chan<- T) {
	Yield(site)
	close(c)
}

// SendVal converts v to the element type of c (helper of the select rewrite).
//go:norace
func SendVal[T any](_ chan<- T, v T) T { return v }

// RecvZero returns the zero value of c's element type (helper of the select rewrite).
//go:norace
func RecvZero[T any](_ <-chan T) (z T) { return }

// ---------------------------------------------------------------------------
// sync.Cond (emulated: the real Wait re-locks c.L with a blocking Lock, which is not a
// cooperative yield point; the wait list is kept by the simulator and the controller
// chooses which waiter a Signal wakes)

//go:norace
func unlockLocker(l sync.Locker) {
	switch m := l.(type) {
	case *sync.Mutex:
		Unlock(m)
	case *sync.RWMutex:
		RWUnlock(m)
	default:
		l.Unlock()
	}
}

//go:norace
func lockLocker(site string, l sync.Locker) {
	switch m := l.(type) {
	case *sync.Mutex:
		Lock(site, m)
	case *sync.RWMutex:
		RWLock(site, m)
	default:
		l.Lock()
	}
}

// CondWait replaces (*sync.Cond).Wait.
//go:norace
func CondWait(site string, c *sync.Cond) {
	s := cur()
	var w *worker
	if s != nil {
		w = s.self()
	}
	if w == nil {
		c.Wait()
		return
	}
	p := uintptr(unsafe.Pointer(c))
	ch := make(chan struct{})
	ilock(&s.mu)
	if s.conds == nil {
		s.conds = map[uintptr][]chan struct{}{}
	}
	s.conds[p] = append(s.conds[p], ch)
	iunlock(&s.mu)
	unlockLocker(c.L)
	BlockBegin(site)
	<-ch
	BlockEnd(site)
	lockLocker(site, c.L)
}

// CondSignal replaces (*sync.Cond).Signal.
//go:norace
func CondSignal(site string, c *sync.Cond) {
	s := cur()
	if s == nil {
		c.Signal()
		return
	}
	if s.self() != nil {
		Yield(site)
	}
	p := uintptr(unsafe.Pointer(c))
	ilock(&s.mu)
	l := s.conds[p]
	if len(l) > 0 {
		i := s.chooseLocked(kSelect, len(l), 1)
		close(l[i])
		s.conds[p] = append(append([]chan struct{}(nil), l[:i]...), l[i+1:]...)
	}
	iunlock(&s.mu)
}

// CondBroadcast replaces (*sync.Cond).Broadcast.
//go:norace
func CondBroadcast(site string, c *sync.Cond) {
	s := cur()
	if s == nil {
		c.Broadcast()
		return
	}
	if s.self() != nil {
		Yield(site)
	}
	p := uintptr(unsafe.Pointer(c))
	ilock(&s.mu)
	for _, ch := range s.conds[p] {
		close(ch)
	}
	delete(s.conds, p)
	iunlock(&s.mu)
}

// ---------------------------------------------------------------------------
// context.AfterFunc: the callback runs as a worker of its own

// ContextAfterFunc replaces context.AfterFunc.
//go:norace
func ContextAfterFunc(site string, ctx context.Context, f func()) func() bool {
	s := cur()
	if s == nil {
		return context.AfterFunc(ctx, f)
	}
	w := s.self()
	if w != nil {
		Yield(site)
	}
	ilock(&s.mu)
	var id string
	if w != nil {
		id = w.id + "c" + itoa(w.ntimer)
		w.ntimer++
	} else {
		id = "xc" + itoa(s.timerSeq)
		s.timerSeq++
	}
	iunlock(&s.mu)
	return context.AfterFunc(ctx, func() {
		// on the goroutine the context package created for the callback
		nw := s.newWorker(id)
		if nw == nil {
			return
		}
		s.bind(nw)
		defer s.finish(nw)
		s.park(nw, "context-callback", wNone, 0)
		f()
	})
}

// ---------------------------------------------------------------------------
// sync/atomic: the operation itself stays what it is; a yield follows it

// AtomicAfter wraps an atomic operation that returns a value.
//go:norace
func AtomicAfter[T any](site string, v T) T {
	if s := cur(); s != nil && s.cfg.AtomicYield && s.self() != nil {
		Yield(site)
	}
	return v
}

// AtomicVoid wraps an atomic operation without a result (Store).
//go:norace
func AtomicVoid(site string, f func()) {
	f()
	if s := cur(); s != nil && s.cfg.AtomicYield && s.self() != nil {
		Yield(site)
	}
}


// PoolGet replaces (*sync.Pool).Get: objects pooled during this run, last in first out.
//go:norace
func PoolGet(p *sync.Pool) any {
	s := cur()
	if s == nil || RaceEnabled {
		return p.Get()
	}
	ilock(&s.mu)
	st := s.pools[p]
	if n := len(st); n > 0 {
		x := st[n-1]
		st[n-1] = nil
		s.pools[p] = st[:n-1]
		iunlock(&s.mu)
		return x
	}
	iunlock(&s.mu)
	if p.New != nil {
		return p.New()
	}
	return nil
}

// PoolPut replaces (*sync.Pool).Put.
//go:norace
func PoolPut(p *sync.Pool, x any) {
	s := cur()
	if s == nil || RaceEnabled {
		p.Put(x)
		return
	}
	ilock(&s.mu)
	if s.pools == nil {
		s.pools = map[*sync.Pool][]any{}
	}
	s.pools[p] = append(s.pools[p], x)
	iunlock(&s.mu)
}
