package simrt

import (
	"sync"
	"unsafe"
)

//go:norace
func (s *Sim) findHeld(p uintptr) *heldLock {
	for i := range s.held {
		if s.held[i].ptr == p {
			return &s.held[i]
		}
	}
	return nil
}

//go:norace
func (s *Sim) getHeld(p uintptr) *heldLock {
	if h := s.findHeld(p); h != nil {
		return h
	}
	for i := range s.held {
		if s.held[i].ptr == 0 {
			s.held[i] = heldLock{ptr: p}
			return &s.held[i]
		}
	}
	s.infraLocked("held-lock table full")
	return &s.held[0]
}

//go:norace
func (s *Sim) dropHeld(h *heldLock) {
	if !h.writer && h.readers <= 0 {
		*h = heldLock{}
	}
}

//go:norace
func (s *Sim) onceRunning(p uintptr) bool {
	for _, o := range s.onces {
		if o == p {
			return true
		}
	}
	return false
}

// Lock replaces (*sync.Mutex).Lock: yield, then TryLock, repeated until acquired.
//go:norace
func Lock(site string, m *sync.Mutex) {
	s := cur()
	var w *worker
	if s != nil {
		w = s.self()
	}
	if w == nil {
		m.Lock()
		return
	}
	p := uintptr(unsafe.Pointer(m))
	for {
		s.park(w, site, wLock, p)
		if m.TryLock() {
			ilock(&s.mu)
			s.getHeld(p).writer = true
			iunlock(&s.mu)
			return
		}
	}
}

// Unlock replaces (*sync.Mutex).Unlock.
//go:norace
func Unlock(m *sync.Mutex) {
	if s := cur(); s != nil {
		p := uintptr(unsafe.Pointer(m))
		ilock(&s.mu)
		if h := s.findHeld(p); h != nil {
			h.writer = false
			s.dropHeld(h)
		}
		iunlock(&s.mu)
		if w := s.self(); w != nil {
			w.unlocked = true
		}
	}
	m.Unlock()
}

// TryLock replaces (*sync.Mutex).TryLock.
//go:norace
func TryLock(site string, m *sync.Mutex) bool {
	Yield(site)
	ok := m.TryLock()
	if s := cur(); s != nil && ok {
		p := uintptr(unsafe.Pointer(m))
		ilock(&s.mu)
		s.getHeld(p).writer = true
		iunlock(&s.mu)
	}
	return ok
}

// RWLock replaces (*sync.RWMutex).Lock.
//go:norace
func RWLock(site string, m *sync.RWMutex) {
	s := cur()
	var w *worker
	if s != nil {
		w = s.self()
	}
	if w == nil {
		m.Lock()
		return
	}
	p := uintptr(unsafe.Pointer(m))
	for {
		s.park(w, site, wLock, p)
		if m.TryLock() {
			ilock(&s.mu)
			s.getHeld(p).writer = true
			iunlock(&s.mu)
			return
		}
	}
}

// RWUnlock replaces (*sync.RWMutex).Unlock.
//go:norace
func RWUnlock(m *sync.RWMutex) {
	if s := cur(); s != nil {
		p := uintptr(unsafe.Pointer(m))
		ilock(&s.mu)
		if h := s.findHeld(p); h != nil {
			h.writer = false
			s.dropHeld(h)
		}
		iunlock(&s.mu)
	}
	m.Unlock()
}

// RWRLock replaces (*sync.RWMutex).RLock.
//go:norace
func RWRLock(site string, m *sync.RWMutex) {
	s := cur()
	var w *worker
	if s != nil {
		w = s.self()
	}
	if w == nil {
		m.RLock()
		return
	}
	p := uintptr(unsafe.Pointer(m))
	for {
		s.park(w, site, wRLock, p)
		if m.TryRLock() {
			ilock(&s.mu)
			s.getHeld(p).readers++
			iunlock(&s.mu)
			return
		}
	}
}

// RWRUnlock replaces (*sync.RWMutex).RUnlock.
//go:norace
func RWRUnlock(m *sync.RWMutex) {
	if s := cur(); s != nil {
		p := uintptr(unsafe.Pointer(m))
		ilock(&s.mu)
		if h := s.findHeld(p); h != nil {
			h.readers--
			s.dropHeld(h)
		}
		iunlock(&s.mu)
	}
	m.RUnlock()
}

// OnceDo replaces (*sync.Once).Do: f may contain yield points, so a second caller
// waits at a yield (not inside sync.Once's private mutex) while f runs.
//go:norace
func OnceDo(site string, o *sync.Once, f func()) {
	s := cur()
	var w *worker
	if s != nil {
		w = s.self()
	}
	if w == nil {
		o.Do(f)
		return
	}
	p := uintptr(unsafe.Pointer(o))
	for {
		s.park(w, site, wOnce, p)
		ilock(&s.mu)
		if s.onceRunning(p) {
			iunlock(&s.mu)
			continue
		}
		slot := -1
		for i, x := range s.onces {
			if x == 0 {
				slot = i
				break
			}
		}
		if slot < 0 {
			s.infraLocked("once table full")
			slot = 0
		}
		s.onces[slot] = p
		iunlock(&s.mu)
		defer func() {
			ilock(&s.mu)
			for i, x := range s.onces {
				if x == p {
					s.onces[i] = 0
				}
			}
			iunlock(&s.mu)
		}()
		o.Do(f)
		return
	}
}

// WaitGroupWait replaces (*sync.WaitGroup).Wait.
//go:norace
func WaitGroupWait(site string, wg *sync.WaitGroup) {
	if cur() == nil {
		wg.Wait()
		return
	}
	Yield(site)
	BlockBegin(site)
	wg.Wait()
	BlockEnd(site)
}

// ---------------------------------------------------------------------------
// channels

// Recv replaces the expression <-c.
//go:norace
func Recv[T any](site string, c <-chan T) T {
	v, _ := Recv2(site, c)
	return v
}

// Recv2 replaces v, ok := <-c.
//go:norace
func Recv2[T any](site string, c <-chan T) (T, bool) {
	if cur() == nil {
		v, ok := <-c
		return v, ok
	}
	Yield(site)
	select {
	case v, ok := <-c:
		return v, ok
	default:
	}
	BlockBegin(site)
	v, ok := <-c
	BlockEnd(site)
	return v, ok
}

// Send replaces the statement c <- v.
//go:norace
func Send[T any](site string, c chan<- T, v T) {
	if cur() == nil {
		c <- v
		return
	}
	Yield(site)
	select {
	case c <- v:
		return
	default:
	}
	BlockBegin(site)
	c <- v
	BlockEnd(site)
}

// Close replaces close(c).
//go:norace
func Close[T any](site string, c chan<- T) {
	Yield(site)
	close(c)
}

// SendVal converts v to the element type of c (helper of the select rewrite).
//go:norace
func SendVal[T any](_ chan<- T, v T) T { return v }

// RecvZero returns the zero value of c's element type (helper of the select rewrite).
//go:norace
func RecvZero[T any](_ <-chan T) (z T) { return }
