package simrt

import (
	"fmt"
	"sync"
	"time"
)

// Env is the harness-facing handle of a run.
type Env struct {
	s *Sim
}

// Handle identifies a harness worker.
type Handle struct {
	w    *worker
	done chan struct{}
}

// Go starts a harness worker.
func (e *Env) Go(name string, f func()) *Handle {
	s := e.s
	parent := s.self()
	id := "x"
	if parent != nil {
		s.mu.Lock()
		id = parent.id + "." + itoa(parent.nchild)
		parent.nchild++
		s.mu.Unlock()
	}
	h := &Handle{done: make(chan struct{})}
	h.w = s.spawn(id, "start:"+name, true, name, func() {
		defer close(h.done)
		f()
	})
	return h
}

// Join waits (really blocking, then yielding) until the workers have finished.
func (e *Env) Join(hs ...*Handle) {
	for _, h := range hs {
		Yield("join")
		select {
		case <-h.done:
			continue
		default:
		}
		BlockBegin("join")
		<-h.done
		BlockEnd("join")
	}
}

// Finished reports whether the worker has returned.
func (h *Handle) Finished() bool {
	select {
	case <-h.done:
		return true
	default:
		return false
	}
}

// Quiesce parks the caller until nothing can happen any more: no worker is enabled and
// no timer is pending. (The fake clock may have advanced arbitrarily far.)
func (e *Env) Quiesce() {
	s := e.s
	w := s.self()
	if w == nil {
		return
	}
	s.mu.Lock()
	w.within = 0
	s.mu.Unlock()
	s.park(w, "quiesce", wQuiesce, 0)
}

// QuiesceWithin parks the caller until no worker can run and nothing (no timer) makes
// one runnable for a quiet period of d simulated time. For systems with a slow periodic
// timer that never lets them quiesce completely.
func (e *Env) QuiesceWithin(d time.Duration) {
	s := e.s
	w := s.self()
	if w == nil {
		return
	}
	s.mu.Lock()
	w.within = d
	s.mu.Unlock()
	s.park(w, "quiesce", wQuiesce, 0)
}

// Idle parks the caller until at least d of simulated time has passed and, at that
// moment, no other worker can run (all are blocked). Unlike Quiesce it does not require
// that no timer is pending, so it also works with periodic timers in the system.
func (e *Env) Idle(d time.Duration) {
	s := e.s
	w := s.self()
	if w == nil {
		return
	}
	s.mu.Lock()
	w.wakeAt = time.Now().Add(d)
	s.mu.Unlock()
	s.park(w, "idle", wIdle, 0)
}

// Sleep lets d of simulated time pass for the caller.
func (e *Env) Sleep(d time.Duration) { Sleep("env.Sleep", d) }

// Yield is an explicit scheduling point in harness code.
func (e *Env) Yield() { Yield("env.Yield") }

// Now returns the virtual clock (no yield, no jitter).
func (e *Env) Now() time.Time { return VNow() }

// Elapsed returns virtual time since the start of the run.
func (e *Env) Elapsed() time.Duration {
	s := e.s
	s.mu.Lock()
	defer s.mu.Unlock()
	return s.vnowLocked().Sub(s.start)
}

// Start returns the virtual time at which the run started.
func (e *Env) Start() time.Time { return e.s.start }

// Stamp returns a fresh, strictly increasing event stamp (global order of harness events).
func (e *Env) Stamp() uint64 {
	s := e.s
	s.mu.Lock()
	s.stamp++
	v := s.stamp
	s.mu.Unlock()
	return v
}

// Seq returns the number of controller steps so far.
func (e *Env) Seq() uint64 {
	s := e.s
	s.mu.Lock()
	defer s.mu.Unlock()
	return s.seq
}

// Fail records a violation (the first one wins) and aborts the run.
func (e *Env) Fail(class, format string, args ...interface{}) {
	s := e.s
	s.mu.Lock()
	if s.viol == nil {
		s.viol = &Violation{Class: class, Detail: fmt.Sprintf(format, args...), Event: s.seq,
			SimTime: s.vnowLocked().Sub(s.start).String()}
	}
	s.aborted = true
	s.mu.Unlock()
}

// Failed reports whether a violation has been recorded.
func (e *Env) Failed() bool {
	s := e.s
	s.mu.Lock()
	defer s.mu.Unlock()
	return s.viol != nil || s.aborted
}

// Infra records an infrastructure problem (never a property violation).
func (e *Env) Infra(format string, args ...interface{}) {
	s := e.s
	s.mu.Lock()
	s.infraLocked(fmt.Sprintf(format, args...))
	s.mu.Unlock()
}

// Fault counts an injected fault that actually fired.
func (e *Env) Fault(kind string) { CountFault(kind) }

// Probe counts a rare condition that was reached.
func (e *Env) Probe(name string) { CountProbe(name) }

// CountFault counts a fired fault (callable from stubs).
func CountFault(kind string) {
	if s := cur(); s != nil {
		s.mu.Lock()
		s.faults[kind]++
		s.mu.Unlock()
	}
}

// CountProbe counts a reached rare condition (callable from stubs and adaptors).
func CountProbe(name string) {
	if s := cur(); s != nil {
		s.mu.Lock()
		s.probes[name]++
		s.mu.Unlock()
	}
}

// Enter marks the calling worker as being inside API call op (for quiescence oracles).
func (e *Env) Enter(op string) {
	if w := e.s.self(); w != nil {
		e.s.mu.Lock()
		w.op = op
		e.s.mu.Unlock()
	}
}

// Leave clears the mark set by Enter.
func (e *Env) Leave() { e.Enter("") }

// WorkerInfo describes a worker at the time of a snapshot.
type WorkerInfo struct {
	ID      string
	Name    string
	Op      string
	Site    string
	Blocked bool // inside a real blocking operation
	Parked  bool
	Done    bool
	Harness bool
}

// Snapshot lists all workers.
func (e *Env) Snapshot() []WorkerInfo {
	s := e.s
	s.mu.Lock()
	defer s.mu.Unlock()
	out := make([]WorkerInfo, 0, s.nworkers)
	for i := 0; i < s.nworkers; i++ {
		w := &s.workers[i]
		out = append(out, WorkerInfo{ID: w.id, Name: w.name, Op: w.op, Site: w.site,
			Blocked: w.state == stBlocked, Parked: w.state == stParked, Done: w.state == stDone, Harness: w.harness})
	}
	// deterministic order
	for i := 1; i < len(out); i++ {
		for j := i; j > 0 && out[j].ID < out[j-1].ID; j-- {
			out[j], out[j-1] = out[j-1], out[j]
		}
	}
	return out
}

// OnStep registers a function the controller runs after every step (all workers are
// blocked while it runs; it must only touch harness state).
func (e *Env) OnStep(f func()) {
	e.s.onStep = append(e.s.onStep, f)
}

// TimerLegacy reports the timer-channel mode of this run.
func (e *Env) TimerLegacy() bool { return e.s.cfg.TimerLegacy }

// Mutex is a harness-side mutex that is safe to hold across yields.
type Mutex struct{ m sync.Mutex }

// Lock acquires the mutex through the controller.
func (m *Mutex) Lock() { Lock("harness.Lock", &m.m) }

// Unlock releases it.
func (m *Mutex) Unlock() { Unlock(&m.m) }

// Blocks returns how often the calling worker entered a real blocking operation.
func (e *Env) Blocks() int {
	w := e.s.self()
	if w == nil {
		return 0
	}
	e.s.mu.Lock()
	defer e.s.mu.Unlock()
	return w.blocks
}

// SetData hands a value to the code that runs after the simulated run (outside the bubble).
func (e *Env) SetData(v interface{}) {
	e.s.mu.Lock()
	e.s.data = v
	e.s.mu.Unlock()
}
