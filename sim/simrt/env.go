package simrt

import (
	"fmt"
	"sync"
	"time"
)

// Env is the harness-facing handle of a run.
type Env struct {
	s *Sim
}

// Handle identifies a harness worker.
type Handle struct {
	w    *worker
	done chan struct{}
}

// Go starts a harness worker.
//go:norace
func (e *Env) Go(name string, f func()) *Handle {
	s := e.s
	parent := s.self()
	id := "x"
	if parent != nil {
		ilock(&s.mu)
		id = parent.id + "." + itoa(parent.nchild)
		parent.nchild++
		iunlock(&s.mu)
	}
	h := &Handle{done: make(chan struct{})}
	h.w = s.spawn(id, "start:"+name, true, name, func() {
		defer close(h.done)
		f()
	})
	return h
}

// Join waits (really blocking, then yielding) until the workers have finished.
//go:norace
func (e *Env) Join(hs ...*Handle) {
	for _, h := range hs {
		Yield("join")
		select {
		case <-h.done:
			continue
		default:
		}
		BlockBegin("join")
		<-h.done
		BlockEnd("join")
	}
}

// Finished reports whether the worker has returned.
//go:norace
func (h *Handle) Finished() bool {
	select {
	case <-h.done:
		return true
	default:
		return false
	}
}

// Quiesce parks the caller until nothing can happen any more: no worker is enabled and
// no timer is pending. (The fake clock may have advanced arbitrarily far.)
//go:norace
func (e *Env) Quiesce() {
	s := e.s
	w := s.self()
	if w == nil {
		return
	}
	ilock(&s.mu)
	w.within = 0
	iunlock(&s.mu)
	s.park(w, "quiesce", wQuiesce, 0)
}

// QuiesceWithin parks the caller until no worker can run and nothing (no timer) makes
// one runnable for a quiet period of d simulated time. For systems with a slow periodic
// timer that never lets them quiesce completely.
//go:norace
func (e *Env) QuiesceWithin(d time.Duration) {
	s := e.s
	w := s.self()
	if w == nil {
		return
	}
	ilock(&s.mu)
	w.within = d
	iunlock(&s.mu)
	s.park(w, "quiesce", wQuiesce, 0)
}

// Idle parks the caller until at least d of simulated time has passed and, at that
// moment, no other worker can run (all are blocked). Unlike Quiesce it does not require
// that no timer is pending, so it also works with periodic timers in the system.
//go:norace
func (e *Env) Idle(d time.Duration) {
	s := e.s
	w := s.self()
	if w == nil {
		return
	}
	ilock(&s.mu)
	w.wakeAt = time.Now().Add(d)
	iunlock(&s.mu)
	s.park(w, "idle", wIdle, 0)
}

// Sleep lets d of simulated time pass for the caller.
//go:norace
func (e *Env) Sleep(d time.Duration) { Sleep("env.Sleep", d) }

// Yield is an explicit scheduling point in harness code.
//go:norace
func (e *Env) Yield() { Yield("env.Yield") }

// Now returns the virtual clock (no yield, no jitter).
//go:norace
func (e *Env) Now() time.Time { return VNow() }

// Elapsed returns virtual time since the start of the run.
//go:norace
func (e *Env) Elapsed() time.Duration {
	s := e.s
	ilock(&s.mu)
	defer iunlock(&s.mu)
	return s.vnowLocked().Sub(s.start)
}

// Start returns the virtual time at which the run started.
//go:norace
func (e *Env) Start() time.Time { return e.s.start }

// Stamp returns a fresh, strictly increasing event stamp (global order of harness events).
//go:norace
func (e *Env) Stamp() uint64 {
	s := e.s
	ilock(&s.mu)
	s.stamp++
	v := s.stamp
	iunlock(&s.mu)
	return v
}

// Seq returns the number of controller steps so far.
//go:norace
func (e *Env) Seq() uint64 {
	s := e.s
	ilock(&s.mu)
	defer iunlock(&s.mu)
	return s.seq
}

// Fail records a violation (the first one wins) and aborts the run.
//go:norace
func (e *Env) Fail(class, format string, args ...interface{}) {
	s := e.s
	ilock(&s.mu)
	if s.viol == nil {
		s.viol = &Violation{Class: class, Detail: fmt.Sprintf(format, args...), Event: s.seq,
			SimTime: s.vnowLocked().Sub(s.start).String()}
	}
	s.aborted = true
	iunlock(&s.mu)
}

// Failed reports whether a violation has been recorded.
//go:norace
func (e *Env) Failed() bool {
	s := e.s
	ilock(&s.mu)
	defer iunlock(&s.mu)
	return s.viol != nil || s.aborted
}

// Infra records an infrastructure problem (never a property violation).
//go:norace
func (e *Env) Infra(format string, args ...interface{}) {
	s := e.s
	ilock(&s.mu)
	s.infraLocked(fmt.Sprintf(format, args...))
	iunlock(&s.mu)
}

// Fault counts an injected fault that actually fired.
//go:norace
func (e *Env) Fault(kind string) { CountFault(kind) }

// Probe counts a rare condition that was reached.
//go:norace
func (e *Env) Probe(name string) { CountProbe(name) }

// CountFault counts a fired fault (callable from stubs).
//go:norace
func CountFault(kind string) {
	if s := cur(); s != nil {
		ilock(&s.mu)
		s.faults[kind]++
		iunlock(&s.mu)
	}
}

// CountProbe counts a reached rare condition (callable from stubs and adaptors).
//go:norace
func CountProbe(name string) {
	if s := cur(); s != nil {
		ilock(&s.mu)
		s.probes[name]++
		iunlock(&s.mu)
	}
}

// Enter marks the calling worker as being inside API call op (for quiescence oracles).
//go:norace
func (e *Env) Enter(op string) {
	if w := e.s.self(); w != nil {
		ilock(&e.s.mu)
		w.op = op
		iunlock(&e.s.mu)
	}
}

// Leave clears the mark set by Enter.
//go:norace
func (e *Env) Leave() { e.Enter("") }

// WorkerInfo describes a worker at the time of a snapshot.
type WorkerInfo struct {
	ID      string
	Name    string
	Op      string
	Site    string
	Blocked bool // inside a real blocking operation
	Parked  bool
	Done    bool
	Harness bool
}

// Snapshot lists all workers.
//go:norace
func (e *Env) Snapshot() []WorkerInfo {
	s := e.s
	ilock(&s.mu)
	defer iunlock(&s.mu)
	out := make([]WorkerInfo, 0, s.nworkers)
	for i := 0; i < s.nworkers; i++ {
		w := &s.workers[i]
		out = append(out, WorkerInfo{ID: w.id, Name: w.name, Op: w.op, Site: w.site,
			Blocked: w.state == stBlocked, Parked: w.state == stParked, Done: w.state == stDone, Harness: w.harness})
	}
	// deterministic order
	for i := 1; i < len(out); i++ {
		for j := i; j > 0 && out[j].ID < out[j-1].ID; j-- {
			out[j], out[j-1] = out[j-1], out[j]
		}
	}
	return out
}

// OnStep registers a function the controller runs after every step (all workers are
// blocked while it runs; it must only touch harness state).
//go:norace
func (e *Env) OnStep(f func()) {
	e.s.onStep = append(e.s.onStep, f)
}

// TimerLegacy reports the timer-channel mode of this run.
//go:norace
func (e *Env) TimerLegacy() bool { return e.s.cfg.TimerLegacy }

// Mutex is a harness-side mutex that is safe to hold across yields.
type Mutex struct{ m sync.Mutex }

// Lock acquires the mutex through the controller.
//go:norace
func (m *Mutex) Lock() { Lock("harness.Lock", &m.m) }

// Unlock releases it.
//go:norace
func (m *Mutex) Unlock() { Unlock(&m.m) }

// Blocks returns how often the calling worker entered a real blocking operation.
//go:norace
func (e *Env) Blocks() int {
	w := e.s.self()
	if w == nil {
		return 0
	}
	ilock(&e.s.mu)
	defer iunlock(&e.s.mu)
	return w.blocks
}

// SetData hands a value to the code that runs after the simulated run (outside the bubble).
//go:norace
func (e *Env) SetData(v interface{}) {
	ilock(&e.s.mu)
	e.s.data = v
	iunlock(&e.s.mu)
}
